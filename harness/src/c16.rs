//! C16: CTAPHID fragmentation / reassembly against passkey-transports.
use crate::util::{guarded, hex, hexf, Ctx};
use passkey_transports::hid::{ChannelHandler, Command, Message};

const CMDS: [u8; 9] = [0x03, 0x10, 0x06, 0x01, 0x11, 0x3F, 0x3B, 0x08, 0x04];

struct Rec(Vec<Vec<u8>>);
impl std::io::Write for Rec {
    fn write(&mut self, buf: &[u8]) -> std::io::Result<usize> { self.0.push(buf.to_vec()); Ok(buf.len()) }
    fn flush(&mut self) -> std::io::Result<()> { Ok(()) }
}

fn send_obs(ch: [u8; 4], cmd: u8, data: &[u8]) -> String {
    let r = guarded(|| {
        let c = Command::try_from(cmd).unwrap();
        match Message::new(u32::from_ne_bytes(ch), c, data) {
            Err(_) => "refused".to_string(),
            Ok(m) => {
                let mut w = Rec(vec![]);
                match m.send(&mut w) {
                    Ok(()) => format!("ok {}", w.0.iter().map(|p| hex(p)).collect::<Vec<_>>().join(",")),
                    Err(_) => "ioerr".to_string(),
                }
            }
        }
    });
    r.unwrap_or_else(|| "panic".into())
}

/// the harness's own packetiser (protocol text), so that receive scenarios do not depend on the
/// implementation's sender; the driver re-checks these against `Spec.streamOf`.
fn packets(ch: [u8; 4], cmd: u8, data: &[u8]) -> Vec<Vec<u8>> {
    let mut out = vec![];
    let mut p = Vec::with_capacity(64);
    p.extend_from_slice(&ch);
    p.push(0x80 | cmd);
    p.push((data.len() >> 8) as u8);
    p.push((data.len() & 0xff) as u8);
    let n = data.len().min(57);
    p.extend_from_slice(&data[..n]);
    p.resize(64, 0);
    out.push(p);
    let mut seq = 0u8;
    for chunk in data[n..].chunks(59) {
        let mut p = Vec::with_capacity(64);
        p.extend_from_slice(&ch);
        p.push(seq);
        p.extend_from_slice(chunk);
        p.resize(64, 0);
        out.push(p);
        seq = seq.wrapping_add(1);
    }
    out
}

fn feed_obs(h: &mut ChannelHandler, pkt: &[u8]) -> String {
    match guarded(|| h.handle_packet(pkt)) {
        None => "panic".into(),
        Some(None) => "none".into(),
        Some(Some(m)) => format!("msg {} {:02x} {}", hex(&m.channel.to_ne_bytes()), m.command as u8, hexf(&m.payload)),
    }
}

fn scenario(ctx: &mut Ctx, expects: &[([u8; 4], u8, Vec<u8>)], stream: &[Vec<u8>]) {
    ctx.line("hid.reset", "");
    for (ch, cmd, d) in expects {
        ctx.line(&format!("hid.expect {} {:02x} {}", hex(ch), cmd, hexf(d)), "");
    }
    let mut h = ChannelHandler::default();
    for p in stream {
        let obs = feed_obs(&mut h, p);
        if obs == "panic" { ctx.stat("recv.panic"); h = ChannelHandler::default(); }
        else if obs != "none" { ctx.stat("recv.delivered"); }
        ctx.line(&format!("hid.pkt {}", hexf(p)), &obs);
    }
    ctx.line("hid.end", "");
    ctx.stat("recv.scenarios");
}

fn rand_chan(ctx: &mut Ctx) -> [u8; 4] {
    match ctx.rng.below(8) {
        0 => [0, 0, 0, 0],
        1 => [0xff, 0xff, 0xff, 0xff],
        2 => [0, 0, 0, 1],
        _ => { let b = ctx.rng.bytes(4); [b[0], b[1], b[2], b[3]] }
    }
}

fn rand_len(ctx: &mut Ctx) -> usize {
    match ctx.rng.below(10) {
        0 => 0,
        1 => ctx.rng.range(1, 56) as usize,
        2 => ctx.rng.range(56, 59) as usize,
        3 => (57 + 59 * ctx.rng.range(1, 128) as i64 + ctx.rng.range(0, 2) as i64 - 1) as usize,
        4 => ctx.rng.range(7600, 7615) as usize,
        5 => ctx.rng.range(60, 400) as usize,
        _ => ctx.rng.range(0, 7700) as usize,
    }
}

/// all merges of the given streams (keeping each stream's order), up to `cap`
fn merges(streams: &[Vec<Vec<u8>>], cap: usize) -> Vec<Vec<Vec<u8>>> {
    fn go(streams: &[Vec<Vec<u8>>], pos: &mut Vec<usize>, cur: &mut Vec<Vec<u8>>, out: &mut Vec<Vec<Vec<u8>>>, cap: usize) {
        if out.len() >= cap { return; }
        let mut done = true;
        for i in 0..streams.len() {
            if pos[i] < streams[i].len() {
                done = false;
                cur.push(streams[i][pos[i]].clone());
                pos[i] += 1;
                go(streams, pos, cur, out, cap);
                pos[i] -= 1;
                cur.pop();
            }
        }
        if done { out.push(cur.clone()); }
    }
    let mut out = vec![];
    go(streams, &mut vec![0; streams.len()], &mut vec![], &mut out, cap);
    out
}

pub fn gen(ctx: &mut Ctx) {
    // ---- corpus first: inputs that crashed the receiver before the repair (fixed: C15/C16)
    let corpus: Vec<Vec<Vec<u8>>> = vec![
        vec![vec![1, 2, 3, 4, 0x83, 0, 5]],                        // init packet shorter than its declared length
        vec![{ let mut p = vec![1, 2, 3, 4, 0x83, 0, 60]; p.extend(vec![7u8; 93]); p }, { let mut p = vec![1, 2, 3, 4, 0]; p.extend(vec![7u8; 59]); p }], // over-long init then continuation
        vec![{ let mut p = vec![1, 2, 3, 4, 0x83, 0, 100]; p.extend(vec![7u8; 57]); p }, vec![1, 2, 3, 4, 0, 9, 9]],            // short final continuation
        vec![vec![1, 2, 3, 4], vec![], vec![1, 2, 3, 4, 0x80]],
    ];
    for s in &corpus { scenario(ctx, &[], s); ctx.stat("recv.corpus"); }

    // ---- sender: boundaries, then random
    let mut lens: Vec<usize> = vec![0, 1, 56, 57, 58, 59, 115, 116, 117, 175, 176, 7549, 7550, 7551, 7607, 7608, 7609, 7610, 7667, 65535, 65536, 70000];
    if ctx.thorough { lens = (0..=7700).collect(); lens.extend([65535, 65536, 70000]); }
    let nrand = if ctx.thorough { 2000 } else { 200 };
    for _ in 0..nrand { let l = rand_len(ctx); lens.push(l); }
    for (i, l) in lens.iter().enumerate() {
        let ch = rand_chan(ctx);
        let cmd = CMDS[i % 9];
        let data = ctx.rng.bytes(*l);
        let obs = send_obs(ch, cmd, &data);
        ctx.stat(if obs == "refused" { "send.refused" } else if obs == "panic" { "send.panic" } else { "send.accepted" });
        ctx.line(&format!("hid.new {} {:02x} {}", hex(&ch), cmd, hexf(&data)), &obs);
    }

    // ---- receiver: one message alone, every boundary length
    let mut rl: Vec<usize> = vec![0, 1, 56, 57, 58, 116, 117, 175, 7608];
    if ctx.thorough { rl = (0..=7608).step_by(7).collect(); rl.extend([57, 58, 116, 117, 7607, 7608]); }
    for (i, l) in rl.iter().enumerate() {
        let ch = rand_chan(ctx);
        let cmd = CMDS[i % 9];
        let data = ctx.rng.bytes(*l);
        scenario(ctx, &[(ch, cmd, data.clone())], &packets(ch, cmd, &data));
    }

    // ---- a message after an abandoned transfer on the same channel (a receiver in any state), every cut
    for (la, lb) in [(116usize, 116usize), (300, 10), (175, 175), (117, 58)] {
        let ch = rand_chan(ctx);
        let (a, b) = (ctx.rng.bytes(la), ctx.rng.bytes(lb));
        let pa = packets(ch, CMDS[1], &a);
        for keep in 1..pa.len() {
            let mut stream = pa[..keep].to_vec();
            stream.extend(packets(ch, CMDS[2], &b));
            scenario(ctx, &[(ch, CMDS[2], b.clone())], &stream);
            ctx.stat("recv.after_abandoned");
        }
    }

    // ---- exhaustive merges of 2-3 channels with short streams
    let combos: &[&[usize]] = if ctx.thorough { &[&[58, 58], &[117, 58], &[58, 58, 58], &[117, 117], &[10, 58, 117], &[117, 117, 58]] } else { &[&[58, 58], &[10, 58, 117]] };
    for lens in combos {
        let chans: Vec<[u8; 4]> = (0..lens.len()).map(|i| [i as u8 + 1, 0, 0xaa, 0xff]).collect();
        let msgs: Vec<([u8; 4], u8, Vec<u8>)> = lens.iter().enumerate().map(|(i, l)| (chans[i], CMDS[i % 9], ctx.rng.bytes(*l))).collect();
        let streams: Vec<Vec<Vec<u8>>> = msgs.iter().map(|(c, cmd, d)| packets(*c, *cmd, d)).collect();
        for m in merges(&streams, 3000) {
            scenario(ctx, &msgs, &m);
            ctx.stat("recv.exhaustive_merges");
        }
    }

    // ---- sampled merges: 2-4 channels, 1-3 messages each, with and without noise
    let n = if ctx.thorough { 3000 } else { 150 };
    for _ in 0..n {
        let k = ctx.rng.range(2, 4) as usize;
        let mut chans: Vec<[u8; 4]> = vec![];
        while chans.len() < k { let c = rand_chan(ctx); if !chans.contains(&c) { chans.push(c); } }
        let mut expects = vec![];
        let mut streams: Vec<Vec<Vec<u8>>> = vec![];
        for c in &chans {
            let mut s = vec![];
            // a receiver in any state: an abandoned transfer (or stray continuations) on the channel before its messages
            if ctx.rng.below(3) == 0 {
                let l = ctx.rng.range(58, 400) as usize;
                let d = ctx.rng.bytes(l);
                let mut ps = packets(*c, *ctx.rng.pick(&CMDS), &d);
                let keep = ctx.rng.range(1, ps.len() as u64 - 1) as usize;
                ps.truncate(keep.max(1));
                if ctx.rng.below(3) == 0 { let mut p = c.to_vec(); p.push(ctx.rng.below(128) as u8); p.extend(ctx.rng.bytes(59)); ps.push(p); }
                s.extend(ps);
                ctx.stat("recv.abandoned_prefix");
            }
            for _ in 0..ctx.rng.range(1, 3) {
                let l = match ctx.rng.below(4) { 0 => ctx.rng.range(0, 57) as usize, 1 => ctx.rng.range(58, 300) as usize, 2 => ctx.rng.range(300, 1500) as usize, _ => rand_len(ctx).min(7608) };
                let cmd = *ctx.rng.pick(&CMDS);
                let d = ctx.rng.bytes(l);
                let ps = packets(*c, cmd, &d);
                let conts = ps.len() - 1;
                s.extend(ps);
                expects.push((*c, cmd, d));
                // strays after a delivered message: continuations carrying the sequence number that would have come next
                // (and the ones after it), full-size — nothing is in progress on the channel, so nothing may come of them
                if ctx.rng.below(3) == 0 && conts < 120 {
                    for k in 0..ctx.rng.range(1, 6) as usize {
                        let mut p = c.to_vec(); p.push((conts + k) as u8); p.extend(ctx.rng.bytes(59)); s.push(p);
                    }
                    ctx.stat("recv.strays_after_delivery");
                }
            }
            streams.push(s);
        }
        let noise = ctx.rng.below(3) == 0;
        if noise {
            // a further stream of junk on its own channel and channel-less junk: orphan continuations,
            // short / long packets, unknown commands, out-of-sequence continuations
            let jc = loop { let c = rand_chan(ctx); if !chans.contains(&c) { break c; } };
            let mut s = vec![];
            for _ in 0..ctx.rng.range(1, 12) {
                let mut p = match ctx.rng.below(7) {
                    0 => { let mut p = jc.to_vec(); p.push(ctx.rng.below(128) as u8); p.extend(ctx.rng.bytes(59)); p }
                    1 => ctx.rng.bytes_in(0, 7),
                    2 => { let mut p = jc.to_vec(); p.push(0x80 | (ctx.rng.next() as u8 & 0x7f)); p.extend(ctx.rng.bytes(59)); p }
                    3 => { let mut p = jc.to_vec(); p.push(0x90); p.extend([0, ctx.rng.below(200) as u8]); p.extend(ctx.rng.bytes_in(0, 69)); p }
                    4 => { let mut p = jc.to_vec(); p.push(0x90); p.extend([ctx.rng.below(40) as u8, ctx.rng.next() as u8]); p.extend(ctx.rng.bytes(57)); p }
                    5 => { let mut p = jc.to_vec(); p.push(ctx.rng.below(3) as u8); p.extend(ctx.rng.bytes_in(0, 79)); p }
                    _ => ctx.rng.bytes_in(60, 70),
                };
                // keep junk off the declared channels
                if p.len() >= 4 && chans.iter().any(|c| c[..] == p[..4]) { p[0] ^= 0x55; if chans.iter().any(|c| c[..] == p[..4]) { continue; } }
                s.push(p);
            }
            streams.push(s);
            ctx.stat("recv.noisy");
        }
        // random merge
        let mut pos = vec![0usize; streams.len()];
        let mut merged = vec![];
        loop {
            let live: Vec<usize> = (0..streams.len()).filter(|i| pos[*i] < streams[*i].len()).collect();
            if live.is_empty() { break; }
            let i = *ctx.rng.pick(&live);
            merged.push(streams[i][pos[i]].clone());
            pos[i] += 1;
        }
        ctx.stat_n("recv.packets", merged.len() as u64);
        scenario(ctx, &expects, &merged);
    }

    // ---- arbitrary junk on a single channel with messages in progress (model vs implementation only)
    let n = if ctx.thorough { 3000 } else { 200 };
    for _ in 0..n {
        let c = rand_chan(ctx);
        let mut s = vec![];
        for _ in 0..ctx.rng.range(1, 10) {
            let p = match ctx.rng.below(6) {
                0 => { let l = ctx.rng.range(58, 400) as usize; let d = ctx.rng.bytes(l); let ps = packets(c, 0x10, &d); let k = ctx.rng.range(1, ps.len() as u64) as usize; s.extend(ps[..k].iter().cloned()); continue; }
                1 => { let mut p = c.to_vec(); p.push(ctx.rng.below(4) as u8); p.extend(ctx.rng.bytes_in(0, 61)); p }
                2 => { let mut p = c.to_vec(); p.push(0x81); p.extend([0, ctx.rng.below(120) as u8]); p.extend(ctx.rng.bytes_in(0, 59)); p }
                3 => { let mut p = c.to_vec(); p.extend(ctx.rng.bytes_in(0, 69)); p }
                4 => { let mut p = c.to_vec(); p.push(0x81); p.extend([ctx.rng.below(3) as u8, ctx.rng.next() as u8]); p.extend(ctx.rng.bytes(57)); p }
                _ => ctx.rng.bytes_in(0, 99),
            };
            s.push(p);
        }
        scenario(ctx, &[], &s);
        ctx.stat("recv.junk_scenarios");
    }
}
