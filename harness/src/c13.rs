//! C13: CTAP2 message (de)serialisation and status bytes against passkey-types / passkey-client.
use crate::util::{guarded, hex, hexf, Ctx};
use ciborium::value::Value;
use coset::iana;
use passkey_client::WebauthnError;
use passkey_types::ctap2::{self, extensions::HmacGetSecretInput, get_assertion, get_info, make_credential, Aaguid, AuthenticatorData, StatusCode};
use passkey_types::webauthn::{self, AuthenticatorTransport, PublicKeyCredentialDescriptor, PublicKeyCredentialParameters, PublicKeyCredentialType};

fn ser<T: serde::Serialize>(v: &T) -> Vec<u8> { let mut b = vec![]; ciborium::ser::into_writer(v, &mut b).unwrap(); b }

/// deserialize into the message type and serialise again
fn reser(schema: &str, bytes: &[u8]) -> String {
    fn go<T: serde::Serialize + serde::de::DeserializeOwned>(bytes: &[u8]) -> String {
        match ciborium::de::from_reader::<T, _>(bytes) { Ok(v) => format!("ok {}", hex(&ser(&v))), Err(_) => "err".into() }
    }
    let r = guarded(|| match schema {
        "makeCredentialRequest" => go::<make_credential::Request>(bytes),
        "makeCredentialResponse" => go::<make_credential::Response>(bytes),
        "getAssertionRequest" => go::<get_assertion::Request>(bytes),
        "getAssertionResponse" => go::<get_assertion::Response>(bytes),
        "getInfoResponse" => go::<get_info::Response>(bytes),
        "hmacSecretHmacGetSecretInput" => go::<HmacGetSecretInput>(bytes),
        _ => "bad".into(),
    });
    r.unwrap_or("panic".into())
}

/// a binary member: usually of the customary length, now and then empty, one byte, or longer than the decoders'
/// reservation cap (the members are byte strings of any length)
fn bs(ctx: &mut Ctx, lo: u64, hi: u64) -> Vec<u8> {
    match ctx.rng.below(12) { 0 => vec![], 1 => ctx.rng.bytes(1), 2 => { let n = *ctx.rng.pick(&[17usize, 33, 255, 256, 4095, 4096, 4097, 6000]); ctx.rng.bytes(n) } _ => ctx.rng.bytes_in(lo, hi) }
}
fn descriptor(ctx: &mut Ctx) -> PublicKeyCredentialDescriptor {
    PublicKeyCredentialDescriptor { ty: PublicKeyCredentialType::PublicKey, id: bs(ctx, 0, 40).into(),
        transports: match ctx.rng.below(3) { 0 => None, 1 => Some(vec![]), _ => Some(vec![AuthenticatorTransport::Usb, AuthenticatorTransport::Internal]) } }
}
fn opt<T>(ctx: &mut Ctx, f: impl FnOnce(&mut Ctx) -> T) -> Option<T> { if ctx.rng.bool() { Some(f(ctx)) } else { None } }
fn text(ctx: &mut Ctx) -> String { (0..ctx.rng.below(12)).map(|_| char::from_u32(ctx.rng.range(0x20, 0x17f) as u32).unwrap_or('x')).collect() }

fn hmac_input(ctx: &mut Ctx) -> HmacGetSecretInput {
    HmacGetSecretInput { key_agreement: Value::Map(vec![(Value::Integer(1.into()), Value::Integer(2.into())), (Value::Integer((-2).into()), Value::Bytes(ctx.rng.bytes(32)))]),
        salt_enc: bs(ctx, 32, 64).into(), salt_auth: bs(ctx, 16, 16).into(), pin_uv_auth_protocol: opt(ctx, |c| c.rng.below(3) as u8) }
}

fn auth_data(ctx: &mut Ctx) -> AuthenticatorData {
    let a = AuthenticatorData::new(&text(ctx), opt(ctx, |c| c.rng.next() as u32));
    if ctx.rng.bool() {
        let k = coset::CoseKeyBuilder::new_ec2_pub_key(iana::EllipticCurve::P_256, ctx.rng.bytes(32), ctx.rng.bytes(32)).algorithm(iana::Algorithm::ES256).build();
        let cid = ctx.rng.bytes_in(0, 64);
        a.set_attested_credential_data(ctap2::AttestedCredentialData::new(Aaguid::new_empty(), cid, k).unwrap())
    } else { a }
}

/// one generated message of the given schema, serialised by the real code
pub fn message_pub(ctx: &mut Ctx, schema: &str) -> Vec<u8> { message(ctx, schema) }
pub fn auth_data_pub(ctx: &mut Ctx) -> AuthenticatorData { auth_data(ctx) }
fn message(ctx: &mut Ctx, schema: &str) -> Vec<u8> {
    match schema {
        "makeCredentialRequest" => ser(&make_credential::Request {
            client_data_hash: bs(ctx, 32, 32).into(),
            rp: make_credential::PublicKeyCredentialRpEntity { id: text(ctx), name: opt(ctx, text) },
            user: webauthn::PublicKeyCredentialUserEntity { id: bs(ctx, 0, 64).into(), display_name: text(ctx), name: text(ctx) },
            pub_key_cred_params: (0..ctx.rng.below(3)).map(|_| PublicKeyCredentialParameters { ty: PublicKeyCredentialType::PublicKey, alg: iana::Algorithm::ES256 }).collect(),
            exclude_list: opt(ctx, |c| (0..c.rng.below(3)).map(|_| descriptor(c)).collect()),
            extensions: opt(ctx, |c| make_credential::ExtensionInputs { hmac_secret: opt(c, |c| c.rng.bool()), hmac_secret_mc: opt(c, hmac_input), prf: None }),
            options: make_credential::Options { rk: ctx.rng.bool(), up: ctx.rng.bool(), uv: ctx.rng.bool() },
            pin_auth: opt(ctx, |c| bs(c, 16, 16).into()),
            pin_protocol: opt(ctx, |c| c.rng.below(3) as u8),
        }),
        "makeCredentialResponse" => ser(&make_credential::Response {
            fmt: "none".into(), auth_data: auth_data(ctx), att_stmt: Value::Map(vec![]),
            ep_att: opt(ctx, |c| c.rng.bool()), large_blob_key: opt(ctx, |c| bs(c, 32, 32).into()), unsigned_extension_outputs: None,
        }),
        "getAssertionRequest" => ser(&get_assertion::Request {
            rp_id: text(ctx), client_data_hash: bs(ctx, 32, 32).into(),
            allow_list: opt(ctx, |c| (0..c.rng.below(3)).map(|_| descriptor(c)).collect()),
            extensions: opt(ctx, |c| get_assertion::ExtensionInputs { hmac_secret: opt(c, hmac_input), prf: None }),
            options: make_credential::Options { rk: ctx.rng.bool(), up: ctx.rng.bool(), uv: ctx.rng.bool() },
            pin_auth: opt(ctx, |c| bs(c, 16, 16).into()), pin_protocol: opt(ctx, |c| c.rng.below(3) as u8),
        }),
        "getAssertionResponse" => ser(&get_assertion::Response {
            credential: opt(ctx, descriptor), auth_data: auth_data(ctx), signature: bs(ctx, 60, 72).into(),
            user: opt(ctx, |c| webauthn::PublicKeyCredentialUserEntity { id: bs(c, 1, 32).into(), display_name: text(c), name: text(c) }),
            number_of_credentials: opt(ctx, |c| c.rng.below(5) as u8), user_selected: opt(ctx, |c| c.rng.bool()),
            large_blob_key: opt(ctx, |c| bs(c, 32, 32).into()), unsigned_extension_outputs: None,
        }),
        "getInfoResponse" => ser(&get_info::Response {
            versions: vec![get_info::Version::FIDO_2_0, get_info::Version::U2F_V2],
            extensions: opt(ctx, |c| if c.rng.bool() { vec![get_info::Extension::HmacSecret, get_info::Extension::Prf] } else { vec![] }),
            aaguid: if ctx.rng.bool() { Aaguid::new_empty() } else { let b = ctx.rng.bytes(16); let mut g = [0u8; 16]; g.copy_from_slice(&b); Aaguid(g) },
            options: opt(ctx, |c| get_info::Options { plat: c.rng.bool(), rk: c.rng.bool(), client_pin: opt(c, |c| c.rng.bool()), up: c.rng.bool(), uv: opt(c, |c| c.rng.bool()) }),
            max_msg_size: opt(ctx, |c| std::num::NonZeroU128::new(c.rng.range(1, 1 << 20) as u128).unwrap()),
            pin_protocols: opt(ctx, |c| vec![c.rng.below(3) as u8]),
            transports: opt(ctx, |_| vec![AuthenticatorTransport::Internal, AuthenticatorTransport::Hybrid]),
        }),
        _ => ser(&hmac_input(ctx)),
    }
}

fn entries(bytes: &[u8]) -> Vec<(Value, Value)> {
    match ciborium::de::from_reader::<Value, _>(bytes) { Ok(Value::Map(m)) => m, _ => vec![] }
}
fn pack(m: Vec<(Value, Value)>) -> Vec<u8> { ser(&Value::Map(m)) }

pub fn gen(ctx: &mut Ctx) {
    // ---- all 256 status bytes, exhaustively
    for b in 0..=255u8 {
        let obs = guarded(|| {
            let s = StatusCode::from(b);
            let dbg = format!("{:?}", s);
            let back: u8 = StatusCode::from(b).into();
            let w = match WebauthnError::from(s) { WebauthnError::CredentialNotFound => "CredentialNotFound".to_string(), WebauthnError::AuthenticatorError(x) => format!("AuthenticatorError({})", x), o => format!("{:?}", o) };
            format!("{} {} {}", dbg, back, w)
        }).unwrap_or("panic".into());
        ctx.line(&format!("st.byte {}", b), &obs);
    }
    // ---- every value of every error family: value -> byte -> value (exactly one status value per byte)
    for b in 0..=255u8 {
        use passkey_types::ctap2::{Ctap2Error, ExtensionError, U2FError, UnknownSpecError, VendorError};
        let mut fams: Vec<(&str, StatusCode)> = vec![];
        if let Ok(e) = Ctap2Error::try_from(b) { fams.push(("ctap2", e.into())); }
        if let Ok(e) = U2FError::try_from(b) { fams.push(("u2f", e.into())); }
        if let Ok(e) = ExtensionError::try_from(b) { fams.push(("ext", e.into())); }
        if let Ok(e) = VendorError::try_from(b) { fams.push(("vendor", e.into())); }
        if let Ok(e) = UnknownSpecError::try_from(b) { fams.push(("other", e.into())); }
        for (fam, v) in fams {
            let dbg = format!("{:?}", v);
            let byte: u8 = v.into();
            let back = format!("{:?}", StatusCode::from(byte));
            ctx.line(&format!("st.val {} {}", fam, b), &format!("{} {} {}", dbg, byte, back));
        }
    }
    // ---- the mapping as `Client::authenticate` applies it: every status byte injected as the store's answer to
    //      the lookup and to the counter update, every CTAP2 error as the user check's answer, and the
    //      authenticator's own "no credentials" (empty store, unknown id, other RP)
    {
        use crate::au::{Hm, Kind, UvState, World};
        use crate::cl::{cstep, run_ccase, simple_auth, simple_reg, COp};
        let kinds: &[Kind] = if ctx.thorough { &[Kind::RefFull, Kind::Map, Kind::Slot] } else { &[Kind::RefFull] };
        for kind in kinds {
            let w = World { kind: *kind, counter_on: true, id_len: 16, hm: Hm::None, preload: vec![] };
            let site = "https://www.example.com";
            let mut steps = vec![cstep(COp::Auth(simple_auth(ctx, site, Some("example.com")))), cstep(COp::Reg(simple_reg(ctx, site, Some("example.com"))))];
            { let mut a = simple_auth(ctx, site, Some("example.com")); a.allow = Some(vec![vec![9, 9, 9]]); steps.push(cstep(COp::Auth(a))); }
            steps.push(cstep(COp::Auth(simple_auth(ctx, "https://accounts.example.org", None))));
            for b in 0..=255u8 {
                let mut s = cstep(COp::Auth(simple_auth(ctx, site, Some("example.com")))); s.faults = vec![None, Some(b)]; steps.push(s);
                ctx.stat("c13.client.lookup_status");
            }
            for b in 0..=255u8 {
                let mut s = cstep(COp::Auth(simple_auth(ctx, site, Some("example.com")))); s.faults = vec![None, None, Some(b)]; steps.push(s);
                ctx.stat("c13.client.update_status");
            }
            for b in 0..=255u8 {
                // the user check answers with a `Ctap2Error`: only bytes that are one can be injected there
                if passkey_types::ctap2::Ctap2Error::try_from(b).is_err() { continue; }
                let mut s = cstep(COp::Auth(simple_auth(ctx, site, Some("example.com")))); s.uv = UvState { answer: Err(b), ..UvState::ok() }; steps.push(s);
                ctx.stat("c13.client.user_check_status");
            }
            steps.push(cstep(COp::Auth(simple_auth(ctx, site, Some("example.com")))));
            run_ccase(ctx, "C13", &w, &steps);
        }
    }
    // ---- options map defaults
    for mask in 0..27u32 {
        let mut m = vec![];
        for (i, k) in ["rk", "up", "uv"].iter().enumerate() {
            match (mask / 3u32.pow(i as u32)) % 3 { 0 => {}, 1 => m.push((Value::Text(k.to_string()), Value::Bool(false))), _ => m.push((Value::Text(k.to_string()), Value::Bool(true))) }
        }
        let bytes = pack(m);
        let obs = match ciborium::de::from_reader::<make_credential::Options, _>(bytes.as_slice()) { Ok(o) => format!("{},{},{}", o.rk, o.up, o.uv), Err(_) => "err".into() };
        ctx.line(&format!("ctap.opts {}", hexf(&bytes)), &obs);
    }
    // ---- messages
    let schemas = ["makeCredentialRequest", "makeCredentialResponse", "getAssertionRequest", "getAssertionResponse", "getInfoResponse", "hmacSecretHmacGetSecretInput"];
    let n = if ctx.thorough { 400 } else { 40 };
    for schema in schemas {
        for _ in 0..n {
            let orig = message(ctx, schema);
            let orig_obs = reser(schema, &orig);
            ctx.line(&format!("ctap.msg {} plain {} {}", schema, hex(&orig), hex(&orig)), &orig_obs);
            ctx.stat("ctap.plain");
            let es = entries(&orig);
            if es.is_empty() { continue; }
            let known: Vec<i128> = es.iter().filter_map(|(k, _)| k.as_integer().map(|i| i128::from(i))).collect();
            // unknown integer key 0..255 / unknown text key, injected anywhere
            for _ in 0..3 {
                let mut m = es.clone();
                let pos = ctx.rng.below(m.len() as u64 + 1) as usize;
                let key = if ctx.rng.bool() {
                    let mut k = ctx.rng.below(256) as i128;
                    while known.contains(&k) || (1..=9).contains(&k) { k = ctx.rng.range(10, 255) as i128; }
                    Value::Integer((k as u64).into())
                } else if ctx.rng.bool() { Value::Text(format!("x{}", text(ctx))) } else {
                    // a member's own name in another case, or with a character more or less: still no member name
                    let names: &[&str] = match schema {
                        "makeCredentialRequest" => &["clientDataHash", "rp", "user", "pubKeyCredParams", "excludeList", "extensions", "options", "pinAuth", "pinProtocol"],
                        "makeCredentialResponse" => &["fmt", "authData", "attStmt", "epAtt", "largeBlobKey"],
                        "getAssertionRequest" => &["rpId", "clientDataHash", "allowList", "extensions", "options", "pinAuth", "pinProtocol"],
                        "getAssertionResponse" => &["credential", "authData", "signature", "user", "numberOfCredentials"],
                        "getInfoResponse" => &["versions", "extensions", "aaguid", "options", "maxMsgSize", "pinProtocols", "transports"],
                        _ => &["keyAgreement", "saltEnc", "saltAuth", "pinUvAuthProtocol"] };
                    let n = *ctx.rng.pick(names);
                    let v = match ctx.rng.below(5) { 0 => n.to_uppercase(), 1 => n.to_lowercase(), 2 => format!("{}{}", &n[..1].to_uppercase(), &n[1..]), 3 => format!("{}_", n), _ => n[..n.len() - 1].to_string() };
                    if v == n { Value::Text(format!("{}x", n)) } else { ctx.stat("ctap.unknown_key.member_name_in_another_case"); Value::Text(v) }
                };
                let val = match ctx.rng.below(4) { 0 => Value::Null, 1 => Value::Bytes(ctx.rng.bytes_in(0, 9)), 2 => Value::Array(vec![Value::Bool(true), Value::Map(vec![])]), _ => Value::Integer(7.into()) };
                m.insert(pos, (key, val));
                let b = pack(m);
                ctx.line(&format!("ctap.msg {} unknown {} {}", schema, hex(&b), hex(&orig)), &reser(schema, &b));
                ctx.stat("ctap.unknown_key");
            }
            // duplicate of a present member
            { let mut m = es.clone(); let i = ctx.rng.below(m.len() as u64) as usize; let e = m[i].clone(); let pos = ctx.rng.below(m.len() as u64 + 1) as usize; m.insert(pos, e);
              let b = pack(m); ctx.line(&format!("ctap.msg {} dup {} {}", schema, hex(&b), hex(&orig)), &reser(schema, &b)); ctx.stat("ctap.duplicate"); }
            // a member removed (required -> error, optional -> fine)
            { let mut m = es.clone(); let i = ctx.rng.below(m.len() as u64) as usize; let k = m[i].0.as_integer().map(|x| i128::from(x)).unwrap_or(-1); m.remove(i);
              let b = pack(m); ctx.line(&format!("ctap.msg {} remove:{} {} {}", schema, k, hex(&b), hex(&orig)), &reser(schema, &b)); ctx.stat("ctap.removed"); }
            // entries reversed
            { let mut m = es.clone(); m.reverse(); let b = pack(m); ctx.line(&format!("ctap.msg {} reorder {} {}", schema, hex(&b), hex(&orig)), &reser(schema, &b)); }
            // key above 255 / negative key / other key type
            { let mut m = es.clone(); let k = match ctx.rng.below(3) { 0 => Value::Integer(ctx.rng.range(256, 70000).into()), 1 => Value::Integer((-(ctx.rng.range(1, 300) as i64)).into()), _ => Value::Bool(true) };
              m.push((k, Value::Null)); let b = pack(m); ctx.line(&format!("ctap.msg {} badkey {} {}", schema, hex(&b), hex(&orig)), &reser(schema, &b)); ctx.stat("ctap.bad_key"); }
        }
    }
}
