//! C10: public-suffix lookups against the compiled table of /repo/public-suffix.
use crate::util::{guarded, hex, hexf, Ctx};
use public_suffix::{EffectiveTLDProvider, ListProvider, PublicSuffixList, Table, DEFAULT_PROVIDER};

/// type projection: reach the (private) table type behind `PublicSuffixList` without a hook
pub trait GetT { type T: Table; }
impl<T: Table> GetT for ListProvider<T> { type T = T; }
type TL = <PublicSuffixList as GetT>::T;

pub fn lookups(ctx: &mut Ctx, d: &str) {
    let h = hexf(d.as_bytes());
    let s = guarded(|| DEFAULT_PROVIDER.public_suffix(d).to_string());
    ctx.line(&format!("psl.suffix {}", h), &s.map(|s| hexf(s.as_bytes())).unwrap_or_else(|| "panic".into()));
    let e = guarded(|| DEFAULT_PROVIDER.effective_tld_plus_one(d).map(|s| s.to_string()));
    let obs = match e {
        None => { ctx.stat("psl.panic"); "panic".to_string() }
        Some(Ok(s)) => { ctx.stat("psl.etld1.ok"); format!("ok {}", hexf(s.as_bytes())) }
        Some(Err(er)) => { ctx.stat(&format!("psl.etld1.{:?}", er)); format!("err:{:?}", er) }
    };
    ctx.line(&format!("psl.etld1 {}", h), &obs);
    let t = guarded(|| DEFAULT_PROVIDER.is_effective_tld(d));
    ctx.line(&format!("psl.istld {}", h), &t.map(|b| b.to_string()).unwrap_or_else(|| "panic".into()));
}

fn rand_label(ctx: &mut Ctx) -> String {
    let n = ctx.rng.range(1, 8);
    (0..n).map(|_| (b'a' + ctx.rng.below(26) as u8) as char).collect()
}

/// rules of the .dat file in ASCII form: (labels left to right, kind) — the harness's own reading,
/// used only to generate inputs
pub fn dat_rules() -> Vec<(Vec<String>, u8)> {
    let txt = std::fs::read_to_string("/repo/public-suffix/public_suffix_list.dat").unwrap_or_default();
    let mut out = vec![];
    for line in txt.lines() {
        let line = line.trim();
        if line.is_empty() || line.starts_with("//") { continue; }
        let tok = line.split_whitespace().next().unwrap();
        let (kind, body) = if let Some(b) = tok.strip_prefix('!') { (1u8, b) } else if let Some(b) = tok.strip_prefix("*.") { (2u8, b) } else { (0u8, tok) };
        let ascii = if body.is_ascii() { body.to_string() } else {
            match idna::domain_to_ascii(body) { Ok(a) => a, Err(_) => continue }
        };
        out.push((ascii.split('.').map(|s| s.to_string()).collect(), kind));
    }
    out
}

pub fn gen(ctx: &mut Ctx) {
    // ---- the compiled table's constants and arrays, to be compared with the translator's reading
    let nodes: Vec<u8> = TL::NODES.iter().flat_map(|v| v.to_le_bytes()).collect();
    let children: Vec<u8> = TL::CHILDREN.iter().flat_map(|v| v.to_le_bytes()).collect();
    ctx.line(&format!("psl.table {} {} {} {} {} {} {} {} {} {} {} {} {} {}",
        TL::NODES_BITS_CHILDREN, TL::NODES_BITS_ICANN, TL::NODES_BITS_TEXT_OFFSET, TL::NODES_BITS_TEXT_LENGTH,
        TL::CHILDREN_BITS_WILDCARD, TL::CHILDREN_BITS_NODE_TYPE, TL::CHILDREN_BITS_HI, TL::CHILDREN_BITS_LO,
        TL::NODE_TYPE_NORMAL, TL::NODE_TYPE_EXCEPTION, TL::NUM_TLD,
        hex(TL::TEXT.as_bytes()), hex(&nodes), hex(&children)), "same");
    let rules = dat_rules();
    ctx.line(&format!("psl.rules {}", rules.len()), "same");

    // ---- focus: names the translator found the table and the .dat file to disagree on (search for a
    // failing input when the kernel obligation no longer checks); empty on an unchanged tree
    if let Ok(txt) = std::fs::read_to_string("/verif/work/psl_focus.txt") {
        for line in txt.lines() {
            let bytes: Vec<u8> = (0..line.len() / 2).filter_map(|i| u8::from_str_radix(&line[2 * i..2 * i + 2], 16).ok()).collect();
            if let Ok(name) = String::from_utf8(bytes) {
                if name.is_empty() { continue; }
                for v in [name.clone(), format!("www.{}", name), format!("a.b.{}", name), name.split_once('.').map(|x| x.1.to_string()).unwrap_or_default()] {
                    if !v.is_empty() { lookups(ctx, &v); }
                }
                ctx.stat("psl.focus");
            }
        }
    }

    // ---- corpus: hand-picked shapes first
    for d in ["", ".", "..", "com", "co.uk", "www.ck", "x.www.ck", "a.ck", "ck", "a.b.ck", "city.kobe.jp", "x.city.kobe.jp",
              "a.kobe.jp", "b.a.kobe.jp", "kobe.jp", "jp", "example.com.", ".example.com", "a..com", "localhost",
              "EXAMPLE.COM", "example.Co.Uk", "xn--55qx5d.cn", "公司.cn", "foo.公司.cn", "a.b.c.d.e.f.g.h.com",
              "notatld", "a.notatld", "b.a.notatld", "com.", "..com", "a.b..c", "1.2.3.4", "[::1]", "a b.com", "*.ck", "!www.ck",
              // characters other software treats as label separators (IDNA full stops and look-alikes) are ordinary label bytes here
              "example\u{3002}com", "example\u{ff0e}com", "example\u{ff61}com", "a\u{3002}b.co.uk", "www\u{ff0e}city.kobe.jp", "x.y\u{ff61}", "\u{3002}", "\u{3002}com",
              "a\u{2024}com", "a\u{fe52}com", "a\u{b7}com", "a.\u{3002}.com", "com\u{3002}", "😀.com", "a.😀", "\u{10ffff}.ck"] {
        lookups(ctx, d);
        ctx.stat("psl.corpus");
    }

    // ---- every rule (quick: a seeded fifth of them), extended by 0..3 labels, leading label removed / replaced
    let stride = if ctx.thorough { 1 } else { 5 };
    let off = (ctx.rng.below(stride as u64)) as usize;
    for (i, (labels, kind)) in rules.iter().enumerate() {
        if i % stride != off { continue; }
        ctx.stat(match kind { 0 => "psl.rule.normal", 1 => "psl.rule.exception", _ => "psl.rule.wildcard" });
        if labels.iter().any(|l| l.starts_with("xn--")) { ctx.stat("psl.rule.idn"); }
        let mut base: Vec<String> = labels.clone();
        if *kind == 2 { base.insert(0, rand_label(ctx)); }
        let mut variants: Vec<Vec<String>> = vec![base.clone()];
        for extra in 1..=3 {
            let mut v = base.clone();
            for _ in 0..extra { v.insert(0, rand_label(ctx)); }
            variants.push(v);
        }
        if base.len() > 1 { variants.push(base[1..].to_vec()); }
        { let mut v = base.clone(); v[0] = rand_label(ctx); variants.push(v); }
        if *kind == 2 { variants.push(labels.clone()); }
        if ctx.rng.below(10) == 0 { let mut v = base.clone(); v[0] = v[0].to_uppercase(); variants.push(v); }
        // one separator of a variant replaced by a character that only looks like (or is IDNA-equivalent to) a dot
        if ctx.rng.below(4) == 0 {
            let v = variants[ctx.rng.below(variants.len() as u64) as usize].clone();
            if v.len() > 1 {
                let at = ctx.rng.below(v.len() as u64 - 1) as usize;
                let dot = *ctx.rng.pick(&['\u{3002}', '\u{ff0e}', '\u{ff61}', '\u{2024}', '\u{fe52}', '\u{b7}', '\u{1f600}']);
                let mut s = String::new();
                for (i, l) in v.iter().enumerate() { s.push_str(l); if i + 1 < v.len() { if i == at { s.push(dot) } else { s.push('.') } } }
                lookups(ctx, &s);
                ctx.stat("psl.unicode_separator");
            }
        }
        for v in variants { lookups(ctx, &v.join(".")); ctx.stat("psl.rule_variants"); }
    }

    // ---- arbitrary strings
    let n = if ctx.thorough { 20000 } else { 1500 };
    let alphabet: Vec<char> = "abcxyz019-._.*!AZ éß公司\u{0}\u{3002}\u{ff0e}\u{ff61}\u{1f600}".chars().collect();
    for _ in 0..n {
        let len = match ctx.rng.below(12) { 0 => 0, 1 => ctx.rng.range(1000, 10000), 2 => ctx.rng.range(60, 300), _ => ctx.rng.range(1, 30) } as usize;
        let mut s = String::new();
        let mode = ctx.rng.below(4);
        for _ in 0..len {
            let c = match mode {
                0 => *ctx.rng.pick(&alphabet),
                1 => if ctx.rng.below(5) == 0 { '.' } else { (b'a' + ctx.rng.below(26) as u8) as char },
                2 => char::from_u32(if ctx.rng.below(4) == 0 { ctx.rng.below(0x110000) } else { ctx.rng.below(0x3100) } as u32).unwrap_or('.'),
                _ => if ctx.rng.below(3) == 0 { '.' } else { *ctx.rng.pick(&alphabet) },
            };
            s.push(c);
        }
        // sometimes glue a real suffix on
        if ctx.rng.below(3) == 0 && !rules.is_empty() {
            let r = &rules[ctx.rng.below(rules.len() as u64) as usize];
            s.push('.'); s.push_str(&r.0.join("."));
        }
        lookups(ctx, &s);
        ctx.stat("psl.arbitrary");
    }
}
