//! C14: (a) the leaf presentations — binary members as byte arrays / base64url / base64 (padded or not), numbers
//! as numbers / numeric strings / floats — parsed by the real structs and compared with the model; (b) whole
//! option values in many presentations with injected unknown members, enumeration strings and list entries,
//! which must all parse to the same value; (c) credentials emitted by the client re-parsed; (d) member order
//! of re-serialised client data.
use crate::util::{guarded, hexf, Ctx};
use passkey_types::webauthn::{self, CollectedClientData, PublicKeyCredentialParameters, PublicKeyCredentialRequestOptions};
use serde_json::{json, Value};

fn b64u(b: &[u8]) -> String { passkey_types::encoding::base64url(b) }
fn b64(b: &[u8]) -> String { passkey_types::encoding::base64(b) }
fn b64_nopad(b: &[u8]) -> String { b64(b).trim_end_matches('=').to_string() }
/// base64url with the padding a standard encoder adds
fn b64u_padded(b: &[u8]) -> String { let mut s = b64u(b); while s.len() % 4 != 0 { s.push('='); } s }

fn leaf_bytes(ctx: &mut Ctx, text: &str) { leaf_bytes_of(ctx, text, None) }
/// `value`: the byte string `text` is a presentation of (the statement: every presentation parses to it)
fn leaf_bytes_of(ctx: &mut Ctx, text: &str, value: Option<&[u8]>) {
    let doc = format!("{{\"challenge\":{}}}", text);
    let r = guarded(|| serde_json::from_str::<PublicKeyCredentialRequestOptions>(&doc));
    let obs = match r { None => "panic".to_string(), Some(Ok(o)) => format!("ok:{}", hexf(&o.challenge)), Some(Err(_)) => "err".to_string() };
    ctx.stat(&format!("c14.bytes.{}", obs.split(':').next().unwrap()));
    ctx.line(&format!("js.bytes {} {}", hexf(text.as_bytes()), value.map(|v| format!("is:{}", hexf(v))).unwrap_or("-".into())), &obs);
}
fn leaf_u32(ctx: &mut Ctx, text: &str) {
    let doc = format!("{{\"challenge\":\"AA\",\"timeout\":{}}}", text);
    let r = guarded(|| serde_json::from_str::<PublicKeyCredentialRequestOptions>(&doc));
    let obs = match r { None => "panic".to_string(), Some(Ok(o)) => format!("ok:{}", o.timeout.map(|t| t.to_string()).unwrap_or("none".into())), Some(Err(_)) => "err".to_string() };
    ctx.stat(&format!("c14.u32.{}", obs.split(':').next().unwrap()));
    ctx.line(&format!("js.u32 {}", hexf(text.as_bytes())), &obs);
}
fn leaf_alg(ctx: &mut Ctx, text: &str) {
    let doc = format!("{{\"type\":\"public-key\",\"alg\":{}}}", text);
    let r = guarded(|| serde_json::from_str::<PublicKeyCredentialParameters>(&doc));
    use coset::iana::EnumI64;
    let obs = match r { None => "panic".to_string(), Some(Ok(o)) => format!("ok:{}", o.alg.to_i64()), Some(Err(_)) => "err".to_string() };
    ctx.stat(&format!("c14.alg.{}", obs.split(':').next().unwrap()));
    ctx.line(&format!("js.alg {}", hexf(text.as_bytes())), &obs);
}

/// one binary member in a presentation chosen by `k`
fn present_bytes(b: &[u8], k: u64) -> Value {
    match k % 5 { 0 => json!(b64u(b)), 1 => json!(b.iter().map(|x| *x as u64).collect::<Vec<_>>()), 2 => json!(b64(b)), 3 => json!(b64u_padded(b)), _ => json!(b64_nopad(b)) }
}
fn present_num(n: i64, k: u64) -> Value {
    match k % 4 { 0 => json!(n), 1 => json!(n.to_string()), 2 => serde_json::from_str(&format!("{}.0", n)).unwrap(), _ => json!(format!("{}.0", n)) }
}
fn unknown_value(ctx: &mut Ctx) -> Value {
    match ctx.rng.below(5) { 0 => json!(null), 1 => json!({"nested": [1, {"x": "y"}], "z": false}), 2 => json!("text"), 3 => json!([[], {}, 3.5]), _ => json!(ctx.rng.below(1 << 40)) }
}
fn inject_unknown(ctx: &mut Ctx, v: &mut Value) {
    match v {
        Value::Object(m) => {
            for (_, x) in m.iter_mut() { inject_unknown(ctx, x); }
            for _ in 0..ctx.rng.below(3) { let k = format!("{}{}", ctx.rng.pick(&["futureMember", "x-vendor", "", "TYPE", "ids"]), ctx.rng.below(100)); let val = unknown_value(ctx); m.insert(k, val); }
        }
        Value::Array(a) => { for x in a.iter_mut() { inject_unknown(ctx, x); } }
        _ => {}
    }
}

struct Req { challenge: Vec<u8>, timeout: Option<u32>, rp_id: Option<String>, allow: Option<Vec<(Vec<u8>, Option<Vec<&'static str>>)>>, uv: Option<&'static str>, hints: Option<Vec<&'static str>>, formats: Option<Vec<&'static str>>, prf_first: Option<Vec<u8>> }
fn rand_req(ctx: &mut Ctx) -> Req {
    Req { challenge: ctx.rng.bytes_in(0, 40), timeout: if ctx.rng.bool() { Some(ctx.rng.below(1 << 32) as u32) } else { None }, rp_id: if ctx.rng.bool() { Some("example.com".into()) } else { None },
        allow: if ctx.rng.bool() { Some((0..ctx.rng.below(3)).map(|_| (ctx.rng.bytes_in(1, 32), if ctx.rng.bool() { Some(vec!["usb", "internal"]) } else { None })).collect()) } else { None },
        uv: *ctx.rng.pick(&[None, Some("required"), Some("preferred"), Some("discouraged")]), hints: if ctx.rng.bool() { Some(vec!["security-key"]) } else { None },
        formats: if ctx.rng.bool() { Some(vec!["packed", "tpm"]) } else { None },
        prf_first: if ctx.rng.bool() { Some(ctx.rng.bytes_in(1, 20)) } else { None } }
}
/// `variant` drives the presentation of every member; `unknowns`: inject unknown members, enum strings and list entries
fn req_json(ctx: &mut Ctx, r: &Req, variant: u64, unknowns: bool) -> Value {
    let mut m = serde_json::Map::new();
    m.insert("challenge".into(), present_bytes(&r.challenge, variant));
    if let Some(t) = r.timeout { m.insert("timeout".into(), present_num(t as i64, variant / 4)); }
    if let Some(id) = &r.rp_id { m.insert("rpId".into(), json!(id)); }
    if let Some(a) = &r.allow {
        let mut l: Vec<Value> = vec![];
        for (i, (id, tr)) in a.iter().enumerate() {
            let mut e = serde_json::Map::new();
            // member order inside the entry varies too
            if (variant + i as u64) % 2 == 0 { e.insert("type".into(), json!("public-key")); e.insert("id".into(), present_bytes(id, variant / 2 + i as u64)); }
            else { e.insert("id".into(), present_bytes(id, variant / 2 + i as u64)); e.insert("type".into(), json!("public-key")); }
            if let Some(t) = tr { let mut tl: Vec<Value> = t.iter().map(|s| json!(s)).collect(); if unknowns { tl.insert((variant % 3) as usize % (tl.len() + 1), json!("quantum-link")); } e.insert("transports".into(), json!(tl)); }
            l.push(Value::Object(e));
        }
        m.insert("allowCredentials".into(), json!(l));
    }
    match r.uv { Some(u) => { m.insert("userVerification".into(), json!(u)); } None => { if unknowns { m.insert("userVerification".into(), json!("telepathic")); } } }   // unknown value = the default, like absent
    if let Some(h) = &r.hints { let mut hl: Vec<Value> = h.iter().map(|s| json!(s)).collect(); if unknowns { hl.push(json!("implant")); } m.insert("hints".into(), json!(hl)); }
    // unregistered attestation formats are dropped from the list, wherever they stand
    if let Some(f) = &r.formats { let mut fl: Vec<Value> = f.iter().map(|s| json!(s)).collect(); if unknowns { fl.insert((variant % 3) as usize, json!("compound")); fl.push(json!("x")); } m.insert("attestationFormats".into(), json!(fl)); }
    if let Some(p) = &r.prf_first { m.insert("extensions".into(), json!({"prf": {"eval": {"first": present_bytes(p, variant / 8)}}})); }
    let mut v = Value::Object(m);
    if unknowns { inject_unknown(ctx, &mut v); }
    v
}

struct Cre { challenge: Vec<u8>, user_id: Vec<u8>, params: Vec<i64>, timeout: Option<u32>, exclude: Option<Vec<Vec<u8>>>, attestation: Option<&'static str>, rk: Option<&'static str> }
fn rand_cre(ctx: &mut Ctx) -> Cre {
    Cre { challenge: ctx.rng.bytes_in(1, 40), user_id: ctx.rng.bytes_in(1, 32), params: ctx.rng.pick(&[vec![-7i64], vec![-7, -257], vec![-8, -7], vec![]]).clone(),
        timeout: if ctx.rng.bool() { Some(ctx.rng.below(1 << 20) as u32) } else { None }, exclude: if ctx.rng.bool() { Some((0..ctx.rng.below(3)).map(|_| ctx.rng.bytes_in(1, 32)).collect()) } else { None },
        attestation: *ctx.rng.pick(&[None, Some("none"), Some("direct")]), rk: *ctx.rng.pick(&[None, Some("required"), Some("discouraged")]) }
}
fn cre_json(ctx: &mut Ctx, c: &Cre, variant: u64, unknowns: bool) -> Value {
    let mut params: Vec<Value> = c.params.iter().enumerate().map(|(i, a)| {
        if (variant + i as u64) % 2 == 0 { json!({"type": "public-key", "alg": present_num(*a, variant + i as u64)}) } else { json!({"alg": present_num(*a, variant + i as u64), "type": "public-key"}) } }).collect();
    if unknowns {
        // unknown list entries, with the member that is not understood first, in the middle and last
        params.insert(0, json!({"alg": -1, "type": "public-key"}));
        params.push(json!({"type": "public-key", "alg": -1}));
        params.insert(1.min(params.len()), json!({"note": {"a": [1, 2]}, "alg": "-1.0", "type": "public-key"}));
        params.push(json!({"type": "public-key", "alg": 99, "x": null}));
    }
    let mut m = serde_json::Map::new();
    m.insert("rp".into(), json!({"id": "example.com", "name": "Example"}));
    m.insert("user".into(), json!({"id": present_bytes(&c.user_id, variant / 2), "name": "n\u{e9}", "displayName": "D \u{1f600}"}));
    m.insert("challenge".into(), present_bytes(&c.challenge, variant));
    m.insert("pubKeyCredParams".into(), json!(params));
    if let Some(t) = c.timeout { m.insert("timeout".into(), present_num(t as i64, variant / 4)); }
    if let Some(e) = &c.exclude { let mut l: Vec<Value> = e.iter().enumerate().map(|(i, id)| json!({"type": "public-key", "id": present_bytes(id, variant + i as u64)})).collect();
        // (an entry whose `type` is an unknown string is kept, typed Unknown: the string is ignored, not the entry)
        if unknowns { l.push(json!({"id": "not base64!", "type": "public-key"})); l.insert(0, json!({"type": "public-key", "id": [1, 2, 300]})); } m.insert("excludeCredentials".into(), json!(l)); }
    match c.attestation { Some(a) => { m.insert("attestation".into(), json!(a)); } None => { if unknowns { m.insert("attestation".into(), json!("holographic")); } } }
    if let Some(r) = c.rk { m.insert("authenticatorSelection".into(), json!({"residentKey": r, "userVerification": if unknowns { "x-ray" } else { "preferred" }})); }
    let mut v = Value::Object(m);
    if unknowns { inject_unknown(ctx, &mut v); }
    v
}


/// canonical rendering of parsed option values, member by member in declaration order (the model renders its
/// generic value the same way: Driver/WebJson.lean `showVal`)
pub mod canon {
    use passkey_types::webauthn::*;
    use passkey_types::Bytes;
    use std::collections::HashMap;
    fn hx(b: &[u8]) -> String { b.iter().map(|x| format!("{:02x}", x)).collect() }
    pub trait Canon { fn c(&self) -> String; }
    impl Canon for Bytes { fn c(&self) -> String { format!("h{}", hx(self)) } }
    impl Canon for String { fn c(&self) -> String { format!("s{}", hx(self.as_bytes())) } }
    impl Canon for bool { fn c(&self) -> String { if *self { "t".into() } else { "f".into() } } }
    impl Canon for u32 { fn c(&self) -> String { self.to_string() } }
    impl<T: Canon> Canon for Option<T> { fn c(&self) -> String { match self { None => "N".into(), Some(v) => format!("S({})", v.c()) } } }
    impl<T: Canon> Canon for Vec<T> { fn c(&self) -> String { format!("[{}]", self.iter().map(|x| x.c()).collect::<Vec<_>>().join(",")) } }
    impl<T: Canon> Canon for HashMap<String, T> { fn c(&self) -> String { let mut ks: Vec<&String> = self.keys().collect(); ks.sort();
        format!("m{{{}}}", ks.iter().map(|k| format!("{}={}", hx(k.as_bytes()), self[*k].c())).collect::<Vec<_>>().join(";")) } }
    impl Canon for coset::iana::Algorithm { fn c(&self) -> String { use coset::iana::EnumI64; self.to_i64().to_string() } }
    macro_rules! canon_enum { ($($t:ty),*) => { $(impl Canon for $t { fn c(&self) -> String {
        match serde_json::to_value(self) { Ok(serde_json::Value::String(s)) => format!("e:{}", s), other => format!("e?{:?}", other) } } })* } }
    canon_enum!(UserVerificationRequirement, PublicKeyCredentialHints, AttestationConveyancePreference, AttestationStatementFormatIdentifiers,
        PublicKeyCredentialType, AuthenticatorTransport, AuthenticatorAttachment, ResidentKeyRequirement);
    macro_rules! canon_struct { ($t:ty { $($f:ident),* }) => { impl Canon for $t { fn c(&self) -> String {
        let parts: Vec<String> = vec![$(format!("{}={}", stringify!($f), self.$f.c())),*]; format!("{{{}}}", parts.join(";")) } } } }
    canon_struct!(CredentialRequestOptions { public_key });
    canon_struct!(CredentialCreationOptions { public_key });
    canon_struct!(PublicKeyCredentialRequestOptions { challenge, timeout, rp_id, allow_credentials, user_verification, hints, attestation, attestation_formats, extensions });
    canon_struct!(PublicKeyCredentialCreationOptions { rp, user, challenge, pub_key_cred_params, timeout, exclude_credentials, authenticator_selection, hints, attestation, attestation_formats, extensions });
    canon_struct!(PublicKeyCredentialDescriptor { ty, id, transports });
    canon_struct!(AuthenticationExtensionsClientInputs { cred_props, prf, prf_already_hashed });
    canon_struct!(PublicKeyCredentialRpEntity { id, name });
    canon_struct!(PublicKeyCredentialUserEntity { id, display_name, name });
    canon_struct!(PublicKeyCredentialParameters { ty, alg });
    canon_struct!(AuthenticatorSelectionCriteria { authenticator_attachment, resident_key, require_resident_key, user_verification });
    canon_struct!(AuthenticationExtensionsPrfInputs { eval, eval_by_credential });
    canon_struct!(AuthenticationExtensionsPrfValues { first, second });
}

/// documents for the struct-level model: every member present / absent / null / of the wrong type, in any order,
/// duplicated (also through an alias), with unknown members and values anywhere; built as text so that duplicate
/// members can be written
mod docs {
    use crate::util::Ctx;
    const BYTES: &[&str] = &["\"AQID\"", "[1,2,3]", "\"AQID==\"", "\"AQIDBA\"", "\"-_-_\"", "\"+/+/\"", "\"\"", "[]"];
    const BYTES_BAD: &[&str] = &["null", "5", "\"!!\"", "[300]", "{}", "true", "[1,\"2\"]", "\"A\""];
    const STR: &[&str] = &["\"example.com\"", "\"\"", "\"n\u{e9} \\u00e9\""];
    const STR_BAD: &[&str] = &["5", "[\"a\"]", "{}", "true"];
    const NUM: &[&str] = &["60000", "\"60000\"", "6.0e4", "\"1.0\"", "0", "4294967295", "\"4294967295\"", "1e3"];
    const NUM_BAD: &[&str] = &["null", "-1", "4294967296", "\"abc\"", "true", "[1]", "{}", "\"\""];
    const ANY: &[&str] = &["null", "5", "\"x\"", "[1,[2,{\"a\":null}]]", "{\"type\":\"public-key\",\"id\":5}", "true", "{}", "-1.5e3", "\"\\\"\\\\\""];
    fn pick<'a>(ctx: &mut Ctx, good: &[&'a str], bad: &[&'a str], p_bad: u64) -> &'a str { if ctx.rng.below(100) < p_bad { *ctx.rng.pick(bad) } else { *ctx.rng.pick(good) } }
    fn en(ctx: &mut Ctx, names: &[&str], p_bad: u64) -> String {
        match ctx.rng.below(100) {
            x if x < p_bad => (*ctx.rng.pick(&["5", "null", "true", "[\"required\"]", "{\"required\":1}", "{}", "1.5"])).to_string(),
            x if x < p_bad + 25 => (*ctx.rng.pick(&["\"telepathic\"", "\"\"", "\"Required\"", "\"REQUIRED\"", "\"x-ray\"", "\"none \"", "\"cable\"", "\"unknown\""])).to_string(),
            _ => format!("\"{}\"", ctx.rng.pick(names)),
        }
    }
    fn list(ctx: &mut Ctx, mut elem: impl FnMut(&mut Ctx) -> String, p_bad: u64) -> String {
        if ctx.rng.below(100) < p_bad { return (*ctx.rng.pick(&["null", "\"usb\"", "{}", "5", "true"])).to_string(); }
        let n = ctx.rng.below(4);
        format!("[{}]", (0..n).map(|_| elem(ctx)).collect::<Vec<_>>().join(","))
    }
    /// an object from (name, value) members: shuffled, one member sometimes repeated, unknown members injected
    pub fn obj(ctx: &mut Ctx, mut members: Vec<(String, String)>, p_dup: u64, aliases: &[(&str, &str)]) -> String {
        for i in (1..members.len()).rev() { let j = ctx.rng.below(i as u64 + 1) as usize; members.swap(i, j); }
        if !members.is_empty() && ctx.rng.below(100) < p_dup {
            let (k, v) = members[ctx.rng.below(members.len() as u64) as usize].clone();
            let k2 = aliases.iter().find(|(a, _)| *a == k).map(|(_, b)| b.to_string()).filter(|_| ctx.rng.bool()).unwrap_or(k);
            let at = ctx.rng.below(members.len() as u64 + 1) as usize; members.insert(at, (k2, v));
        }
        for _ in 0..ctx.rng.below(3) {
            let k = (*ctx.rng.pick(&["zzz", "Challenge", "rp_id", "", "type ", "publicKey", "\\u0074ype2"])).to_string();
            let at = ctx.rng.below(members.len() as u64 + 1) as usize; members.insert(at, (k, ctx.rng.pick(ANY).to_string()));
        }
        format!("{{{}}}", members.iter().map(|(k, v)| format!("\"{}\":{}", k, v)).collect::<Vec<_>>().join(","))
    }
    const TRANSPORTS: &[&str] = &["usb", "nfc", "ble", "hybrid", "internal", "cable"];
    pub fn descriptor(ctx: &mut Ctx, p_bad: u64) -> String {
        if ctx.rng.below(100) < p_bad / 2 { return (*ctx.rng.pick(&["5", "null", "[]", "\"x\"", "{}", "[\"public-key\",\"AQID\"]"])).to_string(); }
        let mut m = vec![];
        if ctx.rng.below(100) >= p_bad / 2 { m.push(("type".to_string(), en(ctx, &["public-key"], p_bad))); }
        if ctx.rng.below(100) >= p_bad / 2 { m.push(("id".to_string(), pick(ctx, BYTES, BYTES_BAD, p_bad).to_string())); }
        if ctx.rng.bool() { let t = list(ctx, |c| en(c, TRANSPORTS, 20), p_bad); m.push(("transports".to_string(), t)); }
        obj(ctx, m, p_bad / 2, &[])
    }
    fn prf_values(ctx: &mut Ctx, p_bad: u64) -> String {
        let mut m = vec![];
        if ctx.rng.below(100) >= p_bad / 2 { m.push(("first".to_string(), pick(ctx, BYTES, BYTES_BAD, p_bad).to_string())); }
        if ctx.rng.bool() { m.push(("second".to_string(), if ctx.rng.below(5) == 0 { "null".to_string() } else { pick(ctx, BYTES, BYTES_BAD, p_bad).to_string() })); }
        obj(ctx, m, p_bad / 3, &[])
    }
    fn prf_inputs(ctx: &mut Ctx, p_bad: u64) -> String {
        if ctx.rng.below(100) < p_bad / 3 { return (*ctx.rng.pick(&["null", "5", "[]"])).to_string(); }
        let mut m = vec![];
        if ctx.rng.bool() { m.push(("eval".to_string(), prf_values(ctx, p_bad))); }
        if ctx.rng.bool() {
            let n = ctx.rng.below(3);
            let mut es: Vec<(String, String)> = (0..n).map(|_| ((*ctx.rng.pick(&["AQID", "k", "", "zz"])).to_string(), prf_values(ctx, p_bad))).collect();
            if !es.is_empty() && ctx.rng.below(4) == 0 { let e = (es[0].0.clone(), prf_values(ctx, 0)); es.push(e); }   // the same key twice: the later value stays
            m.push(("evalByCredential".to_string(), format!("{{{}}}", es.iter().map(|(k, v)| format!("\"{}\":{}", k, v)).collect::<Vec<_>>().join(","))));
        }
        obj(ctx, m, p_bad / 3, &[])
    }
    pub fn extensions(ctx: &mut Ctx, p_bad: u64) -> String {
        if ctx.rng.below(100) < p_bad / 3 { return (*ctx.rng.pick(&["null", "5", "\"prf\"", "[]"])).to_string(); }
        let mut m = vec![];
        if ctx.rng.bool() { m.push(("credProps".to_string(), pick(ctx, &["true", "false", "null"], &["\"yes\"", "1", "[]"], p_bad).to_string())); }
        if ctx.rng.bool() { m.push(("prf".to_string(), prf_inputs(ctx, p_bad))); }
        if ctx.rng.below(4) == 0 { m.push(("prfAlreadyHashed".to_string(), prf_inputs(ctx, p_bad))); }
        obj(ctx, m, p_bad / 3, &[])
    }
    const UV: &[&str] = &["required", "preferred", "discouraged"];
    const ATT: &[&str] = &["none", "indirect", "direct", "enterprise"];
    const FMT: &[&str] = &["packed", "tpm", "android-key", "android-safetynet", "fido-u2f", "apple", "none"];
    const HINTS: &[&str] = &["security-key", "client-device", "hybrid"];
    pub fn request(ctx: &mut Ctx, p_bad: u64) -> String {
        let mut m = vec![];
        if ctx.rng.below(100) >= p_bad / 4 { m.push(("challenge".to_string(), pick(ctx, BYTES, BYTES_BAD, p_bad / 2).to_string())); }
        if ctx.rng.bool() { m.push(("timeout".to_string(), pick(ctx, NUM, NUM_BAD, p_bad).to_string())); }
        if ctx.rng.bool() { m.push(("rpId".to_string(), pick(ctx, &[STR[0], STR[1], STR[2], "null"], STR_BAD, p_bad).to_string())); }
        if ctx.rng.bool() { let l = list(ctx, |c| descriptor(c, p_bad), p_bad / 2); m.push(((if ctx.rng.below(5) == 0 { "allowList" } else { "allowCredentials" }).to_string(), l)); }
        if ctx.rng.bool() { m.push(("userVerification".to_string(), en(ctx, UV, p_bad / 2))); }
        if ctx.rng.bool() { let l = list(ctx, |c| en(c, HINTS, 20), p_bad / 2); m.push(("hints".to_string(), l)); }
        if ctx.rng.bool() { m.push(("attestation".to_string(), en(ctx, ATT, p_bad / 2))); }
        if ctx.rng.below(3) == 0 { let l = list(ctx, |c| en(c, FMT, 20), p_bad / 2); m.push(("attestationFormats".to_string(), l)); }
        if ctx.rng.bool() { m.push(("extensions".to_string(), extensions(ctx, p_bad))); }
        obj(ctx, m, p_bad / 3, &[("allowCredentials", "allowList"), ("allowList", "allowCredentials")])
    }
    fn param(ctx: &mut Ctx, p_bad: u64) -> String {
        if ctx.rng.below(100) < p_bad / 2 { return (*ctx.rng.pick(&["5", "null", "[]", "\"x\"", "{}"])).to_string(); }
        let mut m = vec![];
        if ctx.rng.below(100) >= p_bad / 2 { m.push(("type".to_string(), en(ctx, &["public-key"], p_bad))); }
        if ctx.rng.below(100) >= p_bad / 2 { m.push(("alg".to_string(), pick(ctx, &["-7", "-257", "\"-7\"", "-7.0", "\"-257.0\"", "-8", "-65535", "1"], &["99", "null", "\"abc\"", "true", "-7.5", "8", "[]", "9223372036854775807"], p_bad).to_string())); }
        obj(ctx, m, p_bad / 2, &[])
    }
    pub fn selection(ctx: &mut Ctx, p_bad: u64) -> String {
        if ctx.rng.below(100) < p_bad / 3 { return (*ctx.rng.pick(&["null", "5", "[]", "\"required\""])).to_string(); }
        let mut m = vec![];
        if ctx.rng.bool() { m.push(("authenticatorAttachment".to_string(), if ctx.rng.below(6) == 0 { "null".to_string() } else { en(ctx, &["platform", "cross-platform"], p_bad / 2) })); }
        if ctx.rng.bool() { m.push(("residentKey".to_string(), if ctx.rng.below(6) == 0 { "null".to_string() } else { en(ctx, UV, p_bad / 2) })); }
        if ctx.rng.bool() { m.push(("requireResidentKey".to_string(), pick(ctx, &["true", "false"], &["\"yes\"", "null", "1"], p_bad).to_string())); }
        if ctx.rng.bool() { m.push(("userVerification".to_string(), en(ctx, UV, p_bad / 2))); }
        obj(ctx, m, p_bad / 3, &[])
    }
    pub fn creation(ctx: &mut Ctx, p_bad: u64) -> String {
        let mut m = vec![];
        if ctx.rng.below(100) >= p_bad / 4 {
            let mut rp = vec![];
            if ctx.rng.bool() { rp.push(("id".to_string(), pick(ctx, &[STR[0], "null"], STR_BAD, p_bad).to_string())); }
            if ctx.rng.below(100) >= p_bad / 3 { rp.push(("name".to_string(), pick(ctx, STR, STR_BAD, p_bad).to_string())); }
            let v = if ctx.rng.below(100) < p_bad / 4 { (*ctx.rng.pick(&["null", "5", "[]"])).to_string() } else { obj(ctx, rp, p_bad / 3, &[]) };
            m.push(("rp".to_string(), v));
        }
        if ctx.rng.below(100) >= p_bad / 4 {
            let mut u = vec![];
            if ctx.rng.below(100) >= p_bad / 3 { u.push(("id".to_string(), pick(ctx, BYTES, BYTES_BAD, p_bad).to_string())); }
            if ctx.rng.below(100) >= p_bad / 3 { u.push(("name".to_string(), pick(ctx, STR, STR_BAD, p_bad).to_string())); }
            if ctx.rng.below(100) >= p_bad / 3 { u.push(("displayName".to_string(), pick(ctx, STR, STR_BAD, p_bad).to_string())); }
            m.push(("user".to_string(), obj(ctx, u, p_bad / 3, &[])));
        }
        if ctx.rng.below(100) >= p_bad / 4 { m.push(("challenge".to_string(), pick(ctx, BYTES, BYTES_BAD, p_bad / 2).to_string())); }
        if ctx.rng.below(100) >= p_bad / 4 { let l = list(ctx, |c| param(c, p_bad), p_bad / 3); m.push(("pubKeyCredParams".to_string(), l)); }
        if ctx.rng.bool() { m.push(("timeout".to_string(), pick(ctx, NUM, NUM_BAD, p_bad).to_string())); }
        if ctx.rng.bool() { let l = list(ctx, |c| descriptor(c, p_bad), p_bad / 2); m.push(("excludeCredentials".to_string(), l)); }
        if ctx.rng.bool() { m.push(("authenticatorSelection".to_string(), selection(ctx, p_bad))); }
        if ctx.rng.below(3) == 0 { let l = list(ctx, |c| en(c, HINTS, 20), p_bad / 2); m.push(("hints".to_string(), l)); }
        if ctx.rng.bool() { m.push(("attestation".to_string(), en(ctx, ATT, p_bad / 2))); }
        if ctx.rng.below(3) == 0 { let l = list(ctx, |c| en(c, FMT, 20), p_bad / 2); m.push(("attestationFormats".to_string(), l)); }
        if ctx.rng.bool() { m.push(("extensions".to_string(), extensions(ctx, p_bad))); }
        obj(ctx, m, p_bad / 3, &[])
    }
}

/// one option document through the real struct parser, rendered member by member
fn opts_line(ctx: &mut Ctx, root: &str, doc: &str) {
    use canon::Canon;
    fn show<T: Canon>(r: Option<Result<T, serde_json::Error>>) -> String { match r { None => "panic".into(), Some(Ok(v)) => format!("ok:{}", v.c()), Some(Err(_)) => "err".into() } }
    let obs = match root {
        "PublicKeyCredentialRequestOptions" => show(guarded(|| serde_json::from_str::<PublicKeyCredentialRequestOptions>(doc))),
        "PublicKeyCredentialCreationOptions" => show(guarded(|| serde_json::from_str::<webauthn::PublicKeyCredentialCreationOptions>(doc))),
        "CredentialRequestOptions" => show(guarded(|| serde_json::from_str::<webauthn::CredentialRequestOptions>(doc))),
        "CredentialCreationOptions" => show(guarded(|| serde_json::from_str::<webauthn::CredentialCreationOptions>(doc))),
        "PublicKeyCredentialDescriptor" => show(guarded(|| serde_json::from_str::<webauthn::PublicKeyCredentialDescriptor>(doc))),
        "AuthenticatorSelectionCriteria" => show(guarded(|| serde_json::from_str::<webauthn::AuthenticatorSelectionCriteria>(doc))),
        "AuthenticationExtensionsClientInputs" => show(guarded(|| serde_json::from_str::<webauthn::AuthenticationExtensionsClientInputs>(doc))),
        _ => "bad-root".into(),
    };
    ctx.stat(&format!("c14.opts.{}.{}", root, obs.split(':').next().unwrap()));
    ctx.line(&format!("js.opts {} {}", root, hexf(doc.as_bytes())), &obs);
}

pub fn gen(ctx: &mut Ctx) {
    ctx.line("js.reset", "");
    // ---- leaf presentations
    let n = if ctx.thorough { 600 } else { 80 };
    for i in 0..n {
        let k = if i < 6 { [0usize, 1, 2, 3, 16, 33][i] } else { ctx.rng.below(70) as usize };
        let mut b = ctx.rng.bytes(k);
        if i % 2 == 1 { for x in b.iter_mut() { if ctx.rng.bool() { *x = *ctx.rng.pick(&[0xfbu8, 0xff, 0xfe, 0x3e, 0x3f]); } } }   // many '-' '_' / '+' '/' symbols
        for t in [format!("\"{}\"", b64u(&b)), format!("\"{}\"", b64u_padded(&b)), format!("\"{}\"", b64(&b)), format!("\"{}\"", b64_nopad(&b)), format!("[{}]", b.iter().map(|x| x.to_string()).collect::<Vec<_>>().join(",")),
                  format!("[ {} ]", b.iter().map(|x| format!("{} ", x)).collect::<Vec<_>>().join(", "))] { leaf_bytes_of(ctx, &t, Some(&b)); }
    }
    // long members, around and above the decoders' reservation cap: the cap bounds the reservation, not the value
    for k in [4095usize, 4096, 4097, 5000, 9000] {
        let b = ctx.rng.bytes(k);
        for t in [format!("\"{}\"", b64u(&b)), format!("\"{}\"", b64(&b)), format!("[{}]", b.iter().map(|x| x.to_string()).collect::<Vec<_>>().join(","))] { leaf_bytes_of(ctx, &t, Some(&b)); }
    }
    for t in ["\"!!\"", "\"AA=A\"", "\"A\"", "\"====\"", "\" AAAA\"", "[256]", "[-1]", "[1.0]", "[\"1\"]", "[1,2,", "null", "{}", "12", "true", "\"\\u0041\\u0041\"", "\"AAA+\"", "\"AAA-\"", "\"A-+A\"", "[]", "\"\""] { leaf_bytes(ctx, t); }
    let nums = ["0", "1", "60000", "4294967295", "4294967296", "-1", "-0", "1.0", "1.5", "1e3", "1E3", "1e-3", "6.0e4", "0.0", "2.5e9", "4.294967295e9", "4.294967296e9", "1e30", "-1e30", "18446744073709551615", "18446744073709551616",
        "\"0\"", "\"60000\"", "\"+5\"", "\"-1\"", "\"4294967296\"", "\"1.0\"", "\"1.9\"", "\"1e3\"", "\" 7\"", "\"7 \"", "\"0x10\"", "\"\"", "\"NaN\"", "\"inf\"", "\"-Infinity\"", "\"+inf\"", "\"abc\"", "\"1e\"", "\".5\"", "\"5.\"", "\".\"", "\"1_000\"",
        "null", "true", "[1]", "{}", "-7", "\"-7\"", "-7.0", "\"-7.0\"", "-257", "\"-257.0\"", "-8", "-65535", "9223372036854775807", "-9223372036854775808", "\"9223372036854775807\"", "123456789012345", "1234567890123456"];
    for t in nums { leaf_u32(ctx, t); leaf_alg(ctx, t); }
    for _ in 0..n { let v = ctx.rng.next() as i64 >> ctx.rng.below(60); let k = ctx.rng.below(6);
        let t = match k { 0 => v.to_string(), 1 => format!("\"{}\"", v), 2 => format!("{}.0", v % 1_000_000_000), 3 => format!("\"{}.0\"", v % 1_000_000_000), 4 => format!("{}e{}", v % 100000, ctx.rng.below(8)), _ => format!("\"{}.{}\"", v % 100000, ctx.rng.below(1000)) };
        leaf_u32(ctx, &t); leaf_alg(ctx, &t); }
    // ---- whole option values: every presentation of one value parses to the same value
    let groups = if ctx.thorough { 300 } else { 40 };
    for g in 0..groups {
        ctx.line(&format!("js.group {}", g), "");
        if g % 2 == 0 {
            let r = rand_req(ctx);
            for variant in 0..10u64 {
                let unknowns = variant >= 4;
                let doc = serde_json::to_string(&req_json(ctx, &r, variant, unknowns)).unwrap();
                let res = guarded(|| serde_json::from_str::<PublicKeyCredentialRequestOptions>(&doc));
                let obs = match res { None => "panic".to_string(), Some(Ok(o)) => format!("ok:{}", hexf(format!("{:?}", o).as_bytes())), Some(Err(e)) => format!("err:{}", hexf(e.to_string().as_bytes())) };
                ctx.stat(&format!("c14.request.{}", obs.split(':').next().unwrap()));
                ctx.line(&format!("js.parse request {}", hexf(doc.as_bytes())), &obs);
                opts_line(ctx, "PublicKeyCredentialRequestOptions", &doc);
            }
        } else {
            let c = rand_cre(ctx);
            for variant in 0..10u64 {
                let unknowns = variant >= 4;
                let doc = serde_json::to_string(&cre_json(ctx, &c, variant, unknowns)).unwrap();
                let res = guarded(|| serde_json::from_str::<webauthn::PublicKeyCredentialCreationOptions>(&doc));
                let obs = match res { None => "panic".to_string(), Some(Ok(o)) => format!("ok:{}", hexf(format!("{:?}", o).as_bytes())), Some(Err(e)) => format!("err:{}", hexf(e.to_string().as_bytes())) };
                ctx.stat(&format!("c14.creation.{}", obs.split(':').next().unwrap()));
                ctx.line(&format!("js.parse creation {}", hexf(doc.as_bytes())), &obs);
                opts_line(ctx, "PublicKeyCredentialCreationOptions", &doc);
            }
        }
    }
    // ---- the struct-level model against the derived parsers: mostly-valid documents, and a malformed stream
    let n = if ctx.thorough { 4000 } else { 500 };
    for i in 0..n {
        let p_bad = if i % 3 == 2 { 30 } else { 4 };
        let (root, doc) = match i % 7 {
            0 | 1 => ("PublicKeyCredentialRequestOptions", docs::request(ctx, p_bad)),
            2 | 3 => ("PublicKeyCredentialCreationOptions", docs::creation(ctx, p_bad)),
            4 => if ctx.rng.bool() { ("CredentialRequestOptions", format!("{{\"publicKey\":{}}}", docs::request(ctx, p_bad))) } else { ("CredentialCreationOptions", format!("{{\"mediation\":\"optional\",\"publicKey\":{}}}", docs::creation(ctx, p_bad))) },
            5 => ("PublicKeyCredentialDescriptor", docs::descriptor(ctx, p_bad)),
            _ => if ctx.rng.bool() { ("AuthenticatorSelectionCriteria", docs::selection(ctx, p_bad)) } else { ("AuthenticationExtensionsClientInputs", docs::extensions(ctx, p_bad)) },
        };
        ctx.stat(if p_bad > 10 { "c14.opts.malformed_stream" } else { "c14.opts.mostly_valid_stream" });
        opts_line(ctx, root, &doc);
    }
    // ---- emitted credentials re-parse to an equal value; base64url round trip
    for i in 0..(if ctx.thorough { 100 } else { 15 }) {
        let emitted = crate::cl::emit_pair(ctx, i);
        for (kind, jsons, dbg) in emitted {
            // equal value: the re-parsed credential renders (Debug) and serialises exactly like the emitted one
            let same = match kind.as_str() {
                "created" => serde_json::from_str::<webauthn::CreatedPublicKeyCredential>(&jsons).map(|v| serde_json::to_string(&v).unwrap() == jsons && format!("{:?}", v) == dbg),
                _ => serde_json::from_str::<webauthn::AuthenticatedPublicKeyCredential>(&jsons).map(|v| serde_json::to_string(&v).unwrap() == jsons && format!("{:?}", v) == dbg),
            };
            let obs = match same { Ok(true) => "same".to_string(), Ok(false) => "differs".to_string(), Err(e) => format!("err:{}", hexf(e.to_string().as_bytes())) };
            ctx.stat(&format!("c14.emit.{}.{}", kind, obs.split(':').next().unwrap()));
            ctx.line(&format!("js.emit {} {}", kind, hexf(jsons.as_bytes())), &obs);
            // ... and the text itself against the model of the serialiser (applied to the value the parser model reads)
            let root = if kind == "created" { "PublicKeyCredential<AuthenticatorAttestationResponse>" } else { "PublicKeyCredential<AuthenticatorAssertionResponse>" };
            ctx.line(&format!("js.ser {} {}", root, hexf(jsons.as_bytes())), &hexf(jsons.as_bytes()));
        }
    }
    // ---- credential values built directly: every optional member present / absent, strings that need escaping
    for i in 0..(if ctx.thorough { 600 } else { 80 }) {
        use webauthn::*;
        let odd = ["", "plain", "q\"uote", "back\\slash", "tab\tnew\nline", "\u{1}\u{1f}\u{7f}", "n\u{e9}\u{20ac}\u{1f600}", "a/b<c>&d"];
        let id = if i % 3 == 0 { odd[(i / 3) % odd.len()].to_string() } else { b64u(&ctx.rng.bytes_in(0, 40)) };
        let att = match ctx.rng.below(3) { 0 => None, 1 => Some(AuthenticatorAttachment::Platform), _ => Some(AuthenticatorAttachment::CrossPlatform) };
        let ext = AuthenticationExtensionsClientOutputs {
            cred_props: match ctx.rng.below(3) { 0 => None, 1 => Some(CredentialPropertiesOutput { discoverable: None }), _ => Some(CredentialPropertiesOutput { discoverable: Some(ctx.rng.bool()) }) },
            prf: match ctx.rng.below(4) { 0 => None, 1 => Some(AuthenticationExtensionsPrfOutputs { enabled: None, results: None }),
                2 => Some(AuthenticationExtensionsPrfOutputs { enabled: Some(ctx.rng.bool()), results: None }),
                _ => Some(AuthenticationExtensionsPrfOutputs { enabled: if ctx.rng.bool() { Some(true) } else { None }, results: Some(AuthenticationExtensionsPrfValues { first: ctx.rng.bytes_in(0, 33).into(), second: if ctx.rng.bool() { Some(ctx.rng.bytes_in(0, 33).into()) } else { None } }) }) } };
        let (root, text) = if i % 2 == 0 {
            let tr = match ctx.rng.below(4) { 0 => None, 1 => Some(vec![]), 2 => Some(vec![AuthenticatorTransport::Internal]), _ => Some(vec![AuthenticatorTransport::Hybrid, AuthenticatorTransport::Usb, AuthenticatorTransport::Nfc, AuthenticatorTransport::Ble]) };
            let c = CreatedPublicKeyCredential { id, raw_id: ctx.rng.bytes_in(0, 70).into(), ty: if ctx.rng.below(6) == 0 { PublicKeyCredentialType::Unknown } else { PublicKeyCredentialType::PublicKey },
                response: AuthenticatorAttestationResponse { client_data_json: ctx.rng.bytes_in(0, 60).into(), authenticator_data: ctx.rng.bytes_in(0, 60).into(),
                    public_key: if ctx.rng.bool() { Some(ctx.rng.bytes_in(0, 91).into()) } else { None },
                    public_key_algorithm: *ctx.rng.pick(&[-7i64, -257, 0, 1, i64::MAX, i64::MIN, -65535, 123456789012]), attestation_object: ctx.rng.bytes_in(0, 60).into(), transports: tr },
                authenticator_attachment: att, client_extension_results: ext };
            ("PublicKeyCredential<AuthenticatorAttestationResponse>", serde_json::to_string(&c).unwrap())
        } else {
            let c = AuthenticatedPublicKeyCredential { id, raw_id: ctx.rng.bytes_in(0, 70).into(), ty: PublicKeyCredentialType::PublicKey,
                response: AuthenticatorAssertionResponse { client_data_json: ctx.rng.bytes_in(0, 60).into(), authenticator_data: ctx.rng.bytes_in(0, 60).into(), signature: ctx.rng.bytes_in(0, 72).into(),
                    user_handle: if ctx.rng.bool() { Some(ctx.rng.bytes_in(0, 64).into()) } else { None }, attestation_object: if ctx.rng.below(4) == 0 { Some(ctx.rng.bytes_in(0, 30).into()) } else { None } },
                authenticator_attachment: att, client_extension_results: ext };
            ("PublicKeyCredential<AuthenticatorAssertionResponse>", serde_json::to_string(&c).unwrap())
        };
        ctx.stat("c14.ser.built");
        ctx.line(&format!("js.ser {} {}", root, hexf(text.as_bytes())), &hexf(text.as_bytes()));
    }
    for i in 0..(if ctx.thorough { 2000 } else { 300 }) {
        let k = if i < 70 { i } else { ctx.rng.below(300) as usize };
        let b = ctx.rng.bytes(k);
        let enc = b64u(&b);
        let back = passkey_types::Bytes::try_from(enc.as_str()).map(|x| x.to_vec());
        ctx.line(&format!("js.b64 {}", hexf(&b)), &format!("{} {}", hexf(enc.as_bytes()), match back { Ok(v) => hexf(&v), Err(_) => "err".into() }));
    }
    // ---- client data: member order after a parse / re-serialise cycle
    for _ in 0..(if ctx.thorough { 1500 } else { 250 }) {
        let mut members: Vec<(String, Value)> = vec![("type".into(), json!(*ctx.rng.pick(&["webauthn.get", "webauthn.create"]))), ("challenge".into(), json!(b64u(&ctx.rng.bytes(16)))), ("origin".into(), json!("https://example.com"))];
        if ctx.rng.below(3) != 0 { members.push(("crossOrigin".into(), json!(ctx.rng.bool()))); }
        // the refusing branches and the corners of the flattened map: another type string, a crossOrigin that is null or no
        // boolean, a required member missing or of another kind, a named member given twice, an unknown name given twice
        match ctx.rng.below(16) {
            0 => { members[0].1 = json!(*ctx.rng.pick(&["payment.get", "webauthn.other", "", "WEBAUTHN.GET"])); }
            1 => { members.retain(|(n, _)| n != "crossOrigin"); members.push(("crossOrigin".into(), ctx.rng.pick(&[json!(null), json!("true"), json!(1), json!([true])]).clone())); }
            2 => { let i = ctx.rng.below(3) as usize; members.remove(i); }
            3 => { let i = 1 + ctx.rng.below(2) as usize; members[i].1 = ctx.rng.pick(&[json!(7), json!(null), json!(["x"])]).clone(); }
            _ => {}
        }
        for _ in 0..ctx.rng.below(5) { let k = format!("{}{}", ctx.rng.pick(&["tokenBinding", "extra", "z", "a", "\u{e9}", "topOrigin"]), ctx.rng.below(50)); let v = unknown_value(ctx); if !members.iter().any(|(n, _)| *n == k) { members.push((k, v)); } }
        // any key order on the way in
        for i in (1..members.len()).rev() { let j = ctx.rng.below(i as u64 + 1) as usize; members.swap(i, j); }
        if !members.is_empty() && ctx.rng.below(6) == 0 {
            // a name given twice (a named one is a duplicate-field error; an unknown one keeps its first place and its last value)
            let (k, _) = members[ctx.rng.below(members.len() as u64) as usize].clone();
            let v = if ctx.rng.bool() { unknown_value(ctx) } else { json!("https://example.com") };
            let at = ctx.rng.below(members.len() as u64 + 1) as usize;
            members.insert(at, (k, v));
        }
        let doc = format!("{{{}}}", members.iter().map(|(k, v)| format!("{}:{}", serde_json::to_string(k).unwrap(), v)).collect::<Vec<_>>().join(","));
        let r = guarded(|| serde_json::from_str::<CollectedClientData>(&doc).map(|c| serde_json::to_string(&c).unwrap()));
        let obs = match r { None => "panic".to_string(), Some(Ok(out)) => format!("ok:{}", hexf(out.as_bytes())), Some(Err(_)) => "err".to_string() };
        ctx.stat(&format!("c14.clientdata.{}", obs.split(':').next().unwrap()));
        ctx.line(&format!("js.cdorder {}", hexf(doc.as_bytes())), &obs);
    }
    ctx.line("js.end", "");
}
