//! C14: (a) the leaf presentations — binary members as byte arrays / base64url / base64 (padded or not), numbers
//! as numbers / numeric strings / floats — parsed by the real structs and compared with the model; (b) whole
//! option values in many presentations with injected unknown members, enumeration strings and list entries,
//! which must all parse to the same value; (c) credentials emitted by the client re-parsed; (d) member order
//! of re-serialised client data.
use crate::util::{guarded, hexf, Ctx};
use passkey_types::webauthn::{self, CollectedClientData, PublicKeyCredentialParameters, PublicKeyCredentialRequestOptions};
use serde_json::{json, Value};

fn b64u(b: &[u8]) -> String { passkey_types::encoding::base64url(b) }
fn b64(b: &[u8]) -> String { passkey_types::encoding::base64(b) }
fn b64_nopad(b: &[u8]) -> String { b64(b).trim_end_matches('=').to_string() }
/// base64url with the padding a standard encoder adds
fn b64u_padded(b: &[u8]) -> String { let mut s = b64u(b); while s.len() % 4 != 0 { s.push('='); } s }

fn leaf_bytes(ctx: &mut Ctx, text: &str) {
    let doc = format!("{{\"challenge\":{}}}", text);
    let r = guarded(|| serde_json::from_str::<PublicKeyCredentialRequestOptions>(&doc));
    let obs = match r { None => "panic".to_string(), Some(Ok(o)) => format!("ok:{}", hexf(&o.challenge)), Some(Err(_)) => "err".to_string() };
    ctx.stat(&format!("c14.bytes.{}", obs.split(':').next().unwrap()));
    ctx.line(&format!("js.bytes {}", hexf(text.as_bytes())), &obs);
}
fn leaf_u32(ctx: &mut Ctx, text: &str) {
    let doc = format!("{{\"challenge\":\"AA\",\"timeout\":{}}}", text);
    let r = guarded(|| serde_json::from_str::<PublicKeyCredentialRequestOptions>(&doc));
    let obs = match r { None => "panic".to_string(), Some(Ok(o)) => format!("ok:{}", o.timeout.map(|t| t.to_string()).unwrap_or("none".into())), Some(Err(_)) => "err".to_string() };
    ctx.stat(&format!("c14.u32.{}", obs.split(':').next().unwrap()));
    ctx.line(&format!("js.u32 {}", hexf(text.as_bytes())), &obs);
}
fn leaf_alg(ctx: &mut Ctx, text: &str) {
    let doc = format!("{{\"type\":\"public-key\",\"alg\":{}}}", text);
    let r = guarded(|| serde_json::from_str::<PublicKeyCredentialParameters>(&doc));
    use coset::iana::EnumI64;
    let obs = match r { None => "panic".to_string(), Some(Ok(o)) => format!("ok:{}", o.alg.to_i64()), Some(Err(_)) => "err".to_string() };
    ctx.stat(&format!("c14.alg.{}", obs.split(':').next().unwrap()));
    ctx.line(&format!("js.alg {}", hexf(text.as_bytes())), &obs);
}

/// one binary member in a presentation chosen by `k`
fn present_bytes(b: &[u8], k: u64) -> Value {
    match k % 5 { 0 => json!(b64u(b)), 1 => json!(b.iter().map(|x| *x as u64).collect::<Vec<_>>()), 2 => json!(b64(b)), 3 => json!(b64u_padded(b)), _ => json!(b64_nopad(b)) }
}
fn present_num(n: i64, k: u64) -> Value {
    match k % 4 { 0 => json!(n), 1 => json!(n.to_string()), 2 => serde_json::from_str(&format!("{}.0", n)).unwrap(), _ => json!(format!("{}.0", n)) }
}
fn unknown_value(ctx: &mut Ctx) -> Value {
    match ctx.rng.below(5) { 0 => json!(null), 1 => json!({"nested": [1, {"x": "y"}], "z": false}), 2 => json!("text"), 3 => json!([[], {}, 3.5]), _ => json!(ctx.rng.below(1 << 40)) }
}
fn inject_unknown(ctx: &mut Ctx, v: &mut Value) {
    match v {
        Value::Object(m) => {
            for (_, x) in m.iter_mut() { inject_unknown(ctx, x); }
            for _ in 0..ctx.rng.below(3) { let k = format!("{}{}", ctx.rng.pick(&["futureMember", "x-vendor", "", "TYPE", "ids"]), ctx.rng.below(100)); let val = unknown_value(ctx); m.insert(k, val); }
        }
        Value::Array(a) => { for x in a.iter_mut() { inject_unknown(ctx, x); } }
        _ => {}
    }
}

struct Req { challenge: Vec<u8>, timeout: Option<u32>, rp_id: Option<String>, allow: Option<Vec<(Vec<u8>, Option<Vec<&'static str>>)>>, uv: Option<&'static str>, hints: Option<Vec<&'static str>>, prf_first: Option<Vec<u8>> }
fn rand_req(ctx: &mut Ctx) -> Req {
    Req { challenge: ctx.rng.bytes_in(0, 40), timeout: if ctx.rng.bool() { Some(ctx.rng.below(1 << 32) as u32) } else { None }, rp_id: if ctx.rng.bool() { Some("example.com".into()) } else { None },
        allow: if ctx.rng.bool() { Some((0..ctx.rng.below(3)).map(|_| (ctx.rng.bytes_in(1, 32), if ctx.rng.bool() { Some(vec!["usb", "internal"]) } else { None })).collect()) } else { None },
        uv: *ctx.rng.pick(&[None, Some("required"), Some("preferred"), Some("discouraged")]), hints: if ctx.rng.bool() { Some(vec!["security-key"]) } else { None },
        prf_first: if ctx.rng.bool() { Some(ctx.rng.bytes_in(1, 20)) } else { None } }
}
/// `variant` drives the presentation of every member; `unknowns`: inject unknown members, enum strings and list entries
fn req_json(ctx: &mut Ctx, r: &Req, variant: u64, unknowns: bool) -> Value {
    let mut m = serde_json::Map::new();
    m.insert("challenge".into(), present_bytes(&r.challenge, variant));
    if let Some(t) = r.timeout { m.insert("timeout".into(), present_num(t as i64, variant / 4)); }
    if let Some(id) = &r.rp_id { m.insert("rpId".into(), json!(id)); }
    if let Some(a) = &r.allow {
        let mut l: Vec<Value> = vec![];
        for (i, (id, tr)) in a.iter().enumerate() {
            let mut e = serde_json::Map::new();
            // member order inside the entry varies too
            if (variant + i as u64) % 2 == 0 { e.insert("type".into(), json!("public-key")); e.insert("id".into(), present_bytes(id, variant / 2 + i as u64)); }
            else { e.insert("id".into(), present_bytes(id, variant / 2 + i as u64)); e.insert("type".into(), json!("public-key")); }
            if let Some(t) = tr { let mut tl: Vec<Value> = t.iter().map(|s| json!(s)).collect(); if unknowns { tl.insert((variant % 3) as usize % (tl.len() + 1), json!("quantum-link")); } e.insert("transports".into(), json!(tl)); }
            l.push(Value::Object(e));
        }
        m.insert("allowCredentials".into(), json!(l));
    }
    match r.uv { Some(u) => { m.insert("userVerification".into(), json!(u)); } None => { if unknowns { m.insert("userVerification".into(), json!("telepathic")); } } }   // unknown value = the default, like absent
    if let Some(h) = &r.hints { let mut hl: Vec<Value> = h.iter().map(|s| json!(s)).collect(); if unknowns { hl.push(json!("implant")); } m.insert("hints".into(), json!(hl)); }
    if let Some(p) = &r.prf_first { m.insert("extensions".into(), json!({"prf": {"eval": {"first": present_bytes(p, variant / 8)}}})); }
    let mut v = Value::Object(m);
    if unknowns { inject_unknown(ctx, &mut v); }
    v
}

struct Cre { challenge: Vec<u8>, user_id: Vec<u8>, params: Vec<i64>, timeout: Option<u32>, exclude: Option<Vec<Vec<u8>>>, attestation: Option<&'static str>, rk: Option<&'static str> }
fn rand_cre(ctx: &mut Ctx) -> Cre {
    Cre { challenge: ctx.rng.bytes_in(1, 40), user_id: ctx.rng.bytes_in(1, 32), params: ctx.rng.pick(&[vec![-7i64], vec![-7, -257], vec![-8, -7], vec![]]).clone(),
        timeout: if ctx.rng.bool() { Some(ctx.rng.below(1 << 20) as u32) } else { None }, exclude: if ctx.rng.bool() { Some((0..ctx.rng.below(3)).map(|_| ctx.rng.bytes_in(1, 32)).collect()) } else { None },
        attestation: *ctx.rng.pick(&[None, Some("none"), Some("direct")]), rk: *ctx.rng.pick(&[None, Some("required"), Some("discouraged")]) }
}
fn cre_json(ctx: &mut Ctx, c: &Cre, variant: u64, unknowns: bool) -> Value {
    let mut params: Vec<Value> = c.params.iter().enumerate().map(|(i, a)| {
        if (variant + i as u64) % 2 == 0 { json!({"type": "public-key", "alg": present_num(*a, variant + i as u64)}) } else { json!({"alg": present_num(*a, variant + i as u64), "type": "public-key"}) } }).collect();
    if unknowns {
        // unknown list entries, with the member that is not understood first, in the middle and last
        params.insert(0, json!({"alg": -1, "type": "public-key"}));
        params.push(json!({"type": "public-key", "alg": -1}));
        params.insert(1.min(params.len()), json!({"note": {"a": [1, 2]}, "alg": "-1.0", "type": "public-key"}));
        params.push(json!({"type": "public-key", "alg": 99, "x": null}));
    }
    let mut m = serde_json::Map::new();
    m.insert("rp".into(), json!({"id": "example.com", "name": "Example"}));
    m.insert("user".into(), json!({"id": present_bytes(&c.user_id, variant / 2), "name": "n\u{e9}", "displayName": "D \u{1f600}"}));
    m.insert("challenge".into(), present_bytes(&c.challenge, variant));
    m.insert("pubKeyCredParams".into(), json!(params));
    if let Some(t) = c.timeout { m.insert("timeout".into(), present_num(t as i64, variant / 4)); }
    if let Some(e) = &c.exclude { let mut l: Vec<Value> = e.iter().enumerate().map(|(i, id)| json!({"type": "public-key", "id": present_bytes(id, variant + i as u64)})).collect();
        // (an entry whose `type` is an unknown string is kept, typed Unknown: the string is ignored, not the entry)
        if unknowns { l.push(json!({"id": "not base64!", "type": "public-key"})); l.insert(0, json!({"type": "public-key", "id": [1, 2, 300]})); } m.insert("excludeCredentials".into(), json!(l)); }
    match c.attestation { Some(a) => { m.insert("attestation".into(), json!(a)); } None => { if unknowns { m.insert("attestation".into(), json!("holographic")); } } }
    if let Some(r) = c.rk { m.insert("authenticatorSelection".into(), json!({"residentKey": r, "userVerification": if unknowns { "x-ray" } else { "preferred" }})); }
    let mut v = Value::Object(m);
    if unknowns { inject_unknown(ctx, &mut v); }
    v
}

pub fn gen(ctx: &mut Ctx) {
    ctx.line("js.reset", "");
    // ---- leaf presentations
    let n = if ctx.thorough { 600 } else { 80 };
    for i in 0..n {
        let k = if i < 6 { [0usize, 1, 2, 3, 16, 33][i] } else { ctx.rng.below(70) as usize };
        let mut b = ctx.rng.bytes(k);
        if i % 2 == 1 { for x in b.iter_mut() { if ctx.rng.bool() { *x = *ctx.rng.pick(&[0xfbu8, 0xff, 0xfe, 0x3e, 0x3f]); } } }   // many '-' '_' / '+' '/' symbols
        for t in [format!("\"{}\"", b64u(&b)), format!("\"{}\"", b64u_padded(&b)), format!("\"{}\"", b64(&b)), format!("\"{}\"", b64_nopad(&b)), format!("[{}]", b.iter().map(|x| x.to_string()).collect::<Vec<_>>().join(",")),
                  format!("[ {} ]", b.iter().map(|x| format!("{} ", x)).collect::<Vec<_>>().join(", "))] { leaf_bytes(ctx, &t); }
    }
    for t in ["\"!!\"", "\"AA=A\"", "\"A\"", "\"====\"", "\" AAAA\"", "[256]", "[-1]", "[1.0]", "[\"1\"]", "[1,2,", "null", "{}", "12", "true", "\"\\u0041\\u0041\"", "\"AAA+\"", "\"AAA-\"", "\"A-+A\"", "[]", "\"\""] { leaf_bytes(ctx, t); }
    let nums = ["0", "1", "60000", "4294967295", "4294967296", "-1", "-0", "1.0", "1.5", "1e3", "1E3", "1e-3", "6.0e4", "0.0", "2.5e9", "4.294967295e9", "4.294967296e9", "1e30", "-1e30", "18446744073709551615", "18446744073709551616",
        "\"0\"", "\"60000\"", "\"+5\"", "\"-1\"", "\"4294967296\"", "\"1.0\"", "\"1.9\"", "\"1e3\"", "\" 7\"", "\"7 \"", "\"0x10\"", "\"\"", "\"NaN\"", "\"inf\"", "\"-Infinity\"", "\"+inf\"", "\"abc\"", "\"1e\"", "\".5\"", "\"5.\"", "\".\"", "\"1_000\"",
        "null", "true", "[1]", "{}", "-7", "\"-7\"", "-7.0", "\"-7.0\"", "-257", "\"-257.0\"", "-8", "-65535", "9223372036854775807", "-9223372036854775808", "\"9223372036854775807\"", "123456789012345", "1234567890123456"];
    for t in nums { leaf_u32(ctx, t); leaf_alg(ctx, t); }
    for _ in 0..n { let v = ctx.rng.next() as i64 >> ctx.rng.below(60); let k = ctx.rng.below(6);
        let t = match k { 0 => v.to_string(), 1 => format!("\"{}\"", v), 2 => format!("{}.0", v % 1_000_000_000), 3 => format!("\"{}.0\"", v % 1_000_000_000), 4 => format!("{}e{}", v % 100000, ctx.rng.below(8)), _ => format!("\"{}.{}\"", v % 100000, ctx.rng.below(1000)) };
        leaf_u32(ctx, &t); leaf_alg(ctx, &t); }
    // ---- whole option values: every presentation of one value parses to the same value
    let groups = if ctx.thorough { 300 } else { 40 };
    for g in 0..groups {
        ctx.line(&format!("js.group {}", g), "");
        if g % 2 == 0 {
            let r = rand_req(ctx);
            for variant in 0..10u64 {
                let unknowns = variant >= 4;
                let doc = serde_json::to_string(&req_json(ctx, &r, variant, unknowns)).unwrap();
                let res = guarded(|| serde_json::from_str::<PublicKeyCredentialRequestOptions>(&doc));
                let obs = match res { None => "panic".to_string(), Some(Ok(o)) => format!("ok:{}", hexf(format!("{:?}", o).as_bytes())), Some(Err(e)) => format!("err:{}", hexf(e.to_string().as_bytes())) };
                ctx.stat(&format!("c14.request.{}", obs.split(':').next().unwrap()));
                ctx.line(&format!("js.parse request {}", hexf(doc.as_bytes())), &obs);
            }
        } else {
            let c = rand_cre(ctx);
            for variant in 0..10u64 {
                let unknowns = variant >= 4;
                let doc = serde_json::to_string(&cre_json(ctx, &c, variant, unknowns)).unwrap();
                let res = guarded(|| serde_json::from_str::<webauthn::PublicKeyCredentialCreationOptions>(&doc));
                let obs = match res { None => "panic".to_string(), Some(Ok(o)) => format!("ok:{}", hexf(format!("{:?}", o).as_bytes())), Some(Err(e)) => format!("err:{}", hexf(e.to_string().as_bytes())) };
                ctx.stat(&format!("c14.creation.{}", obs.split(':').next().unwrap()));
                ctx.line(&format!("js.parse creation {}", hexf(doc.as_bytes())), &obs);
            }
        }
    }
    // ---- emitted credentials re-parse to an equal value; base64url round trip
    for i in 0..(if ctx.thorough { 100 } else { 15 }) {
        let emitted = crate::cl::emit_pair(ctx, i);
        for (kind, jsons, dbg) in emitted {
            // equal value: the re-parsed credential renders (Debug) and serialises exactly like the emitted one
            let same = match kind.as_str() {
                "created" => serde_json::from_str::<webauthn::CreatedPublicKeyCredential>(&jsons).map(|v| serde_json::to_string(&v).unwrap() == jsons && format!("{:?}", v) == dbg),
                _ => serde_json::from_str::<webauthn::AuthenticatedPublicKeyCredential>(&jsons).map(|v| serde_json::to_string(&v).unwrap() == jsons && format!("{:?}", v) == dbg),
            };
            let obs = match same { Ok(true) => "same".to_string(), Ok(false) => "differs".to_string(), Err(e) => format!("err:{}", hexf(e.to_string().as_bytes())) };
            ctx.stat(&format!("c14.emit.{}.{}", kind, obs.split(':').next().unwrap()));
            ctx.line(&format!("js.emit {} {}", kind, hexf(jsons.as_bytes())), &obs);
        }
    }
    for i in 0..(if ctx.thorough { 2000 } else { 300 }) {
        let k = if i < 70 { i } else { ctx.rng.below(300) as usize };
        let b = ctx.rng.bytes(k);
        let enc = b64u(&b);
        let back = passkey_types::Bytes::try_from(enc.as_str()).map(|x| x.to_vec());
        ctx.line(&format!("js.b64 {}", hexf(&b)), &format!("{} {}", hexf(enc.as_bytes()), match back { Ok(v) => hexf(&v), Err(_) => "err".into() }));
    }
    // ---- client data: member order after a parse / re-serialise cycle
    for _ in 0..(if ctx.thorough { 600 } else { 80 }) {
        let mut members: Vec<(String, Value)> = vec![("type".into(), json!(*ctx.rng.pick(&["webauthn.get", "webauthn.create"]))), ("challenge".into(), json!(b64u(&ctx.rng.bytes(16)))), ("origin".into(), json!("https://example.com"))];
        if ctx.rng.below(3) != 0 { members.push(("crossOrigin".into(), json!(ctx.rng.bool()))); }
        for _ in 0..ctx.rng.below(5) { let k = format!("{}{}", ctx.rng.pick(&["tokenBinding", "extra", "z", "a", "\u{e9}", "topOrigin"]), ctx.rng.below(50)); let v = unknown_value(ctx); if !members.iter().any(|(n, _)| *n == k) { members.push((k, v)); } }
        // any key order on the way in
        for i in (1..members.len()).rev() { let j = ctx.rng.below(i as u64 + 1) as usize; members.swap(i, j); }
        let doc = format!("{{{}}}", members.iter().map(|(k, v)| format!("{}:{}", serde_json::to_string(k).unwrap(), v)).collect::<Vec<_>>().join(","));
        let r = guarded(|| serde_json::from_str::<CollectedClientData>(&doc).map(|c| serde_json::to_string(&c).unwrap()));
        let obs = match r { None => "panic".to_string(), Some(Ok(out)) => format!("ok:{}", hexf(out.as_bytes())), Some(Err(_)) => "err".to_string() };
        ctx.stat(&format!("c14.clientdata.{}", obs.split(':').next().unwrap()));
        ctx.line(&format!("js.cdorder {}", hexf(doc.as_bytes())), &obs);
    }
    ctx.line("js.end", "");
}
