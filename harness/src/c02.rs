//! C02: registrations through the real client over challenges, users, accepted origins / RP IDs, algorithm
//! lists, client-data modes, credential-id lengths and counter settings, in sequences into one store.
use crate::au::*;
use crate::cl::*;
use crate::util::Ctx;

pub struct Site { pub org: Org, pub rp: Option<&'static str>, pub allow_localhost: bool }

pub fn sites() -> Vec<Site> {
    vec![
        Site { org: Org::Web("https://www.example.com".into()), rp: Some("example.com"), allow_localhost: false },
        Site { org: Org::Web("https://example.com".into()), rp: None, allow_localhost: false },
        Site { org: Org::Web("https://login.shop.example.co.uk/a/b?x=1#f".into()), rp: Some("shop.example.co.uk"), allow_localhost: false },
        Site { org: Org::Web("https://example.com:8443/".into()), rp: Some("example.com"), allow_localhost: false },
        Site { org: Org::Web("http://localhost:8080".into()), rp: None, allow_localhost: true },
        Site { org: Org::Web("https://b\u{fc}cher.example".into()), rp: None, allow_localhost: false },
        Site { org: Org::Web("https://accounts.example.org".into()), rp: Some("accounts.example.org"), allow_localhost: false },
        Site { org: Org::Android("app.example.net".into()), rp: Some("example.net"), allow_localhost: false },
        Site { org: Org::Android("example.net".into()), rp: None, allow_localhost: false },
    ]
}

/// origins / RP IDs the client must refuse: nothing may be created
pub fn bad_sites() -> Vec<Site> {
    vec![
        Site { org: Org::Web("http://www.example.com".into()), rp: Some("example.com"), allow_localhost: false },
        Site { org: Org::Web("https://www.example.com".into()), rp: Some("other.com"), allow_localhost: false },
        Site { org: Org::Web("https://www.example.com".into()), rp: Some("com"), allow_localhost: false },
        Site { org: Org::Web("http://localhost".into()), rp: None, allow_localhost: false },
    ]
}

pub fn rand_extra(ctx: &mut Ctx) -> serde_json::Map<String, serde_json::Value> {
    let mut m = serde_json::Map::new();
    let keys = ["extra", "tokenBinding", "a b", "k\"q", "\u{e9}t\u{e9}", "z\n"];
    for _ in 0..ctx.rng.range(0, 3) {
        let k = ctx.rng.pick(&keys).to_string();
        let v = match ctx.rng.below(5) {
            0 => serde_json::Value::Bool(ctx.rng.bool()),
            1 => serde_json::Value::from(ctx.rng.below(100000)),
            2 => serde_json::Value::String(ctx.rng.pick(&["plain", "with \"quotes\" and \\", "line\nbreak\ttab", "\u{1f600} \u{4e2d}\u{6587}", "\u{1}\u{1f}"]).to_string()),
            3 => serde_json::json!({ "status": "present", "id": "x" }),
            _ => serde_json::Value::Null,
        };
        m.insert(k, v);
    }
    m
}

pub fn rand_cd(ctx: &mut Ctx) -> CdMode {
    match ctx.rng.below(4) {
        0 => CdMode::Extra(rand_extra(ctx)),
        1 => { let n = *ctx.rng.pick(&[32usize, 32, 0, 20, 64]); CdMode::Hash(ctx.rng.bytes(n)) }
        _ => CdMode::Default,
    }
}

pub fn rand_challenge(ctx: &mut Ctx) -> Vec<u8> {
    let n = *ctx.rng.pick(&[0usize, 1, 2, 3, 16, 31, 32, 33, 64, 100]);
    ctx.rng.bytes(n)
}

pub fn gen(ctx: &mut Ctx) {
    let sites = sites();
    let bad = bad_sites();
    let alg_lists: Vec<Vec<i64>> = vec![vec![], vec![-7], vec![-257, -7], vec![-7, -257], vec![-8], vec![-257], vec![-8, -35, -7, -7], vec![-36, -257, -8]];
    let id_lens: [u8; 12] = [0, 1, 15, 16, 17, 32, 63, 64, 65, 128, 254, 255];
    // corpus first: every site once, every algorithm list once, every id length once
    for (i, s) in sites.iter().enumerate() {
        let w = World { kind: Kind::RefFull, counter_on: i % 2 == 0, id_len: 16, hm: Hm::None, preload: vec![] };
        let mut r = simple_reg(ctx, "https://unused.example", None);
        r.org = s.org.clone(); r.rp = s.rp.map(|x| x.to_string()); r.allow_localhost = s.allow_localhost;
        run_ccase(ctx, "C02", &w, &[cstep(COp::Reg(r))]);
        ctx.stat("c02.corpus.site");
    }
    for (i, a) in alg_lists.iter().enumerate() {
        let w = World { kind: [Kind::RefFull, Kind::Map, Kind::Slot][i % 3], counter_on: true, id_len: 16, hm: Hm::None, preload: vec![] };
        let mut r = simple_reg(ctx, "https://www.example.com", Some("example.com")); r.algs = a.clone();
        run_ccase(ctx, "C02", &w, &[cstep(COp::Reg(r))]);
        ctx.stat("c02.corpus.algs");
    }
    for l in id_lens {
        let w = World { kind: Kind::RefFull, counter_on: false, id_len: l, hm: Hm::None, preload: vec![] };
        let r = simple_reg(ctx, "https://www.example.com", Some("example.com"));
        run_ccase(ctx, "C02", &w, &[cstep(COp::Reg(r))]);
        ctx.stat("c02.corpus.idlen");
    }
    // the same account (user id) registering again: at the same RP, at another RP, and a different account in between
    for kind in [Kind::Map, Kind::RefFull, Kind::RefForced] {
        let w = World { kind, counter_on: true, id_len: 16, hm: Hm::None, preload: vec![] };
        let user = ctx.rng.bytes_in(1, 32);
        let mut steps = vec![];
        for (site, rp, same) in [("https://www.example.com", "example.com", true), ("https://www.example.com", "example.com", true), ("https://accounts.example.org", "accounts.example.org", true),
                                  ("https://www.example.com", "example.com", false), ("https://www.example.com", "example.com", true)] {
            let mut r = simple_reg(ctx, site, Some(rp)); if same { r.user = user.clone(); }
            r.sel = Some(Sel { rk: Some(Rk::Required), rrk: true, uv: UvR::Preferred });
            steps.push(cstep(COp::Reg(r)));
        }
        run_ccase(ctx, "C02", &w, &steps);
        ctx.stat("c02.corpus.same_account_again");
    }
    // credential ids are fresh random bytes to their last byte: 140 registrations per configured length, no byte
    // position constant, no id repeated
    for len in [1u8, 7, 8, 9, 16, 17, 23, 31, 33, 63, 64] {
        use passkey_authenticator::{Authenticator, CredentialIdLength, MemoryStore};
        let mut auth = Authenticator::new(passkey_types::ctap2::Aaguid::from(crate::util::AAGUID), MemoryStore::new(), crate::au::SharedUv { st: std::sync::Arc::new(std::sync::Mutex::new(UvState::ok())), log: crate::env::new_log(), yields: false });
        auth.set_make_credential_id_length(CredentialIdLength::from(len));
        let want = len.clamp(16, 64) as usize;      // the documented range, computed here (not by the code under test)
        let (mut or, mut and, mut ids) = (vec![0u8; want], vec![0xffu8; want], std::collections::HashSet::new());
        let mut ok_len = true;
        let mut bad_keys = 0usize;
        for _ in 0..140 {
            let m = simple_make(ctx, "example.com");
            if let Some(Ok(r)) = crate::util::guarded(|| crate::env::block_on(auth.make_credential(m.real_pub()))) {
                let id = r.auth_data.attested_credential_data.as_ref().map(|a| a.credential_id().to_vec()).unwrap_or_default();
                if id.len() != want { ok_len = false; } else { for (k, b) in id.iter().enumerate() { or[k] |= b; and[k] &= b; } }
                ids.insert(id);
                // the attested key: both coordinates 32 bytes whatever their leading bytes (about one key in 128 has a zero there)
                let shape_ok = r.auth_data.attested_credential_data.as_ref().map(|a| {
                    let k = &a.key;
                    let len_of = |label: i64| k.params.iter().find_map(|(l, v)| if *l == coset::Label::Int(label) { v.as_bytes().map(|b| b.len()) } else { None });
                    len_of(-2) == Some(32) && len_of(-3) == Some(32) && passkey_authenticator::public_key_der_from_cose_key(k).map(|d| d.len() == 91).unwrap_or(false) }).unwrap_or(false);
                if !shape_ok { bad_keys += 1; }
            }
        }
        let obs = format!("{} {} {} {}", crate::util::hexf(&or), crate::util::hexf(&and), (ids.len() == 140 && ok_len) as u8, bad_keys);
        ctx.line(&format!("cl.idbits {} {} {} {} {}", want, crate::util::hexf(&or), crate::util::hexf(&and), (ids.len() == 140 && ok_len) as u8, bad_keys), &obs);
        ctx.stat("c02.id_freshness_batches");
    }
    let n = if ctx.thorough { 1500 } else { 150 };
    for i in 0..n {
        let kind = [Kind::RefFull, Kind::Map, Kind::RefForced, Kind::RefNonDisc, Kind::Slot][i % 5];
        let id_len = if ctx.rng.bool() { *ctx.rng.pick(&id_lens) } else { ctx.rng.below(256) as u8 };
        let hm = if i % 7 == 0 { Hm::NoUv } else { Hm::None };
        let w = World { kind, counter_on: ctx.rng.bool(), id_len, hm, preload: vec![] };
        let nsteps = ctx.rng.range(1, 5);
        let mut steps = vec![];
        for _ in 0..nsteps {
            let s = if ctx.rng.below(8) == 0 { ctx.rng.pick(&bad) } else { ctx.rng.pick(&sites) };
            let mut r = simple_reg(ctx, "https://unused.example", None);
            r.org = s.org.clone(); r.rp = s.rp.map(|x| x.to_string()); r.allow_localhost = s.allow_localhost;
            r.user = ctx.rng.bytes_in(1, 64);
            r.challenge = rand_challenge(ctx);
            r.algs = ctx.rng.pick(&alg_lists).clone();
            r.cd = rand_cd(ctx);
            if ctx.rng.below(3) == 0 {
                r.sel = Some(Sel { rk: *ctx.rng.pick(&[None, Some(Rk::Discouraged), Some(Rk::Preferred)]), rrk: false, uv: *ctx.rng.pick(&[UvR::Preferred, UvR::Discouraged, UvR::Required]) });
            }
            steps.push(cstep(COp::Reg(r)));
        }
        run_ccase(ctx, "C02", &w, &steps);
    }
}
