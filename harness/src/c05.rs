//! C05: RP binding and allow / exclude lists, on the contract store, the shipped stores and their lock wrappers.
use crate::au::*;
use crate::util::Ctx;

fn rand_id(ctx: &mut Ctx) -> Vec<u8> { ctx.rng.bytes_in(4, 20) }

pub fn gen(ctx: &mut Ctx) {
    // unrelated names, and names that are label suffixes / extensions of one another (an RP ID is matched exactly)
    let rps = ["a.example.com", "b.example.org", "c.example.net", "example.com", "login.a.example.com", "A.example.com"];
    // ---- corpus: the cross-RP cases that the shipped stores got wrong
    for kind in [Kind::Map, Kind::Slot, Kind::RefFull] {
        let id = vec![0xAA, 1, 2, 3];
        let pk = make_passkey(ctx, id.clone(), rps[0], Some(vec![9]), None, None);
        let w = World { kind, counter_on: false, id_len: 16, hm: Hm::None, preload: vec![pk] };
        // a credential of a.example.com asked to sign for b.example.org: with its id in the allow list, and without a list
        let mut g1 = simple_get(ctx, rps[1]); g1.allow = Some(vec![id.clone()]);
        let g2 = simple_get(ctx, rps[1]);
        let g3 = simple_get(ctx, rps[0]);
        // it must not block a registration at another RP, but must block one at its own
        let mut m1 = simple_make(ctx, rps[1]); m1.exclude = Some(vec![id.clone()]);
        let mut m2 = simple_make(ctx, rps[0]); m2.exclude = Some(vec![id.clone()]);
        run_case(ctx, "C05", &w, &[step(Op::Get(g1)), step(Op::Get(g2)), step(Op::Get(g3)), step(Op::Make(m1)), step(Op::Make(m2))]);
        ctx.stat("c05.corpus");
    }
    // ---- corpus: every lock wrapper around the slot store and the contract store, id-list miss / hit / mixed / unknown-typed
    for kind in [Kind::Slot, Kind::SlotArcMutex, Kind::SlotArcRwLock, Kind::SlotMutex, Kind::SlotRwLock, Kind::RefFull, Kind::RefArcMutex, Kind::RefArcRwLock, Kind::RefMutex, Kind::RefRwLock] {
        let id = vec![0xAB, 4, 5, 6];
        let pk = make_passkey(ctx, id.clone(), rps[0], Some(vec![9]), None, None);
        let w = World { kind, counter_on: false, id_len: 16, hm: Hm::None, preload: vec![pk] };
        let miss = vec![0xCC, 1, 2, 3];
        let mut g1 = simple_get(ctx, rps[0]); g1.allow = Some(vec![miss.clone()]);
        let mut g2 = simple_get(ctx, rps[0]); g2.allow = Some(vec![miss.clone(), id.clone()]);
        let mut g3 = simple_get(ctx, rps[0]); g3.allow = Some(vec![miss.clone()]); g3.unk = vec![0];     // only an Unknown-typed descriptor
        let mut g4 = simple_get(ctx, rps[0]); g4.allow = Some(vec![id.clone()]); g4.unk = vec![0];
        let mut m1 = simple_make(ctx, rps[0]); m1.exclude = Some(vec![miss.clone()]);
        let mut m2 = simple_make(ctx, rps[0]); m2.exclude = Some(vec![miss.clone(), id.clone()]); m2.rk = false;
        run_case(ctx, "C05", &w, &[step(Op::Get(g1)), step(Op::Get(g2)), step(Op::Get(g3)), step(Op::Get(g4)), step(Op::Make(m2)), step(Op::Make(m1))]);
        ctx.stat("c05.corpus.wrappers");
    }
    // ---- shared lock wrappers while another user of the same store holds the lock: the ceremony waits, its outcome is the same
    for kind in [Kind::SlotArcMutex, Kind::MapArcMutex, Kind::RefArcMutex, Kind::SlotArcRwLock, Kind::MapArcRwLock, Kind::RefArcRwLock] {
        for polls in [1usize, 3] {
            let id = vec![0xAE, 1, 1, polls as u8];
            let pk = make_passkey(ctx, id.clone(), rps[0], Some(vec![9]), Some(3), None);
            let w = World { kind, counter_on: true, id_len: 16, hm: Hm::None, preload: vec![pk] };
            let mut m1 = simple_make(ctx, rps[0]); m1.exclude = Some(vec![id.clone()]);
            let mut g1 = simple_get(ctx, rps[0]); g1.allow = Some(vec![id.clone()]);
            let mut m2 = simple_make(ctx, rps[0]); m2.exclude = Some(vec![vec![1, 2, 3]]);
            let mut steps = vec![step(Op::Make(m1)), step(Op::Get(g1)), step(Op::Make(m2))];
            for s in steps.iter_mut() { s.hold_polls = polls; }
            run_case(ctx, "C05", &w, &steps);
            ctx.stat("c05.corpus.store_locked_by_another_user");
        }
    }
    // ---- corpus: an exclude-list hit is reported as such whatever else is wrong with the request (an algorithm list
    //      with nothing supported, a resident key the store cannot hold), and ids of any length can be excluded
    for kind in [Kind::Slot, Kind::RefFull, Kind::RefNonDisc, Kind::Map, Kind::RefFullEmptyOk] {
        for idlen in [16usize, 1, 80, 300] {
            let id = ctx.rng.bytes(idlen);
            let pk = make_passkey(ctx, id.clone(), rps[0], Some(vec![9]), None, None);
            let w = World { kind, counter_on: false, id_len: 16, hm: Hm::None, preload: vec![pk] };
            let mut m1 = simple_make(ctx, rps[0]); m1.exclude = Some(vec![id.clone()]); m1.algs = vec![-257];
            let mut m2 = simple_make(ctx, rps[0]); m2.exclude = Some(vec![id.clone()]); m2.algs = vec![-8, -36]; m2.rk = true;
            let mut m3 = simple_make(ctx, rps[0]); m3.exclude = Some(vec![vec![7, 7], id.clone()]); m3.rk = true;
            let mut m4 = simple_make(ctx, rps[0]); m4.exclude = Some(vec![vec![7, 7]]); m4.algs = vec![-257];       // nothing held is named: the algorithm error shows
            let mut m5 = simple_make(ctx, rps[0]); m5.exclude = Some(vec![id.clone()]);
            // ... whether or not the user is verified
            let mut m6 = simple_make(ctx, rps[0]); m6.exclude = Some(vec![id.clone()]); m6.uv = false;
            let mut m7 = simple_make(ctx, rps[0]); m7.exclude = Some((0..9).map(|k| vec![7, k]).chain(std::iter::once(id.clone())).collect()); m7.uv = false;
            let present_only = UvState { answer: Ok((true, false)), ..UvState::ok() };
            let (mut s6, mut s7) = (step(Op::Make(m6)), step(Op::Make(m7))); s6.uv = present_only; s7.uv = present_only;
            run_case(ctx, "C05", &w, &[step(Op::Make(m1)), step(Op::Make(m2)), step(Op::Make(m3)), step(Op::Make(m4)), s6, s7, step(Op::Make(m5))]);
            ctx.stat("c05.corpus.exclusion_and_other_refusals");
        }
    }
    // ---- corpus: related RP IDs (parent domain, subdomain, other case) never share credentials
    for kind in [Kind::Slot, Kind::Map, Kind::RefFull, Kind::SlotArcMutex] {
        for (held, asked) in [("example.com", "login.example.com"), ("login.example.com", "example.com"), ("example.com", "Example.com"), ("example.com", "example.com."), ("example.com", "xample.com")] {
            let id = vec![0xAD, 7, 7, 7];
            let pk = make_passkey(ctx, id.clone(), held, Some(vec![9]), None, None);
            let w = World { kind, counter_on: false, id_len: 16, hm: Hm::None, preload: vec![pk] };
            let mut g1 = simple_get(ctx, asked); g1.allow = Some(vec![id.clone()]);
            let g2 = simple_get(ctx, asked);
            let mut m1 = simple_make(ctx, asked); m1.exclude = Some(vec![id.clone()]);
            let mut g3 = simple_get(ctx, held); g3.allow = Some(vec![id.clone()]);
            run_case(ctx, "C05", &w, &[step(Op::Get(g1)), step(Op::Get(g2)), step(Op::Get(g3)), step(Op::Make(m1))]);
            ctx.stat("c05.corpus.related_rp_ids");
        }
    }
    // ---- sequences through the authenticator: the same account (user handle) registering at several RPs and
    //      twice at one RP, each credential then asked for by id at its own RP, at another RP, and excluded
    for (i, kind) in [Kind::Map, Kind::RefFull, Kind::MapArcMutex, Kind::RefForced, Kind::MapRwLock].iter().enumerate() {
        for round in 0..(if ctx.thorough { 12 } else { 3 }) {
            let user = ctx.rng.bytes_in(1, 16);
            let w = World { kind: *kind, counter_on: ctx.rng.bool(), id_len: 16, hm: Hm::None, preload: vec![] };
            let (ra, rb) = (rps[(i + round) % 3], rps[(i + round + 1) % 3]);
            let mut steps = vec![];
            let mk = |ctx: &mut Ctx, rp: &str, user: &Vec<u8>| { let mut m = simple_make(ctx, rp); m.user = user.clone(); m.rk = true; m };
            steps.push(step(Op::Make(mk(ctx, ra, &user))));                                   // @0 at A
            steps.push(step(Op::Make(mk(ctx, rb, &user))));                                   // @1 at B, same handle
            steps.push(step(Op::Make(mk(ctx, ra, &user))));                                   // @2 at A again, same handle
            for (k, rp) in [(0usize, ra), (1, rb), (2, ra), (0, rb), (1, ra)] {
                let mut g = simple_get(ctx, rp); g.allow = Some(vec![format!("@{}", k).into_bytes()]);
                steps.push(step(Op::Get(g)));
            }
            { let mut m = mk(ctx, ra, &user); m.exclude = Some(vec![b"@0".to_vec()]); steps.push(step(Op::Make(m))); }   // held for A: excluded
            { let mut m = mk(ctx, rb, &user); m.exclude = Some(vec![b"@0".to_vec()]); steps.push(step(Op::Make(m))); }   // held for A only: not excluded at B
            { let other = ctx.rng.bytes(4); let mut m = mk(ctx, ra, &other); m.exclude = Some(vec![b"@2".to_vec(), vec![1, 2, 3]]); steps.push(step(Op::Make(m))); }   // another account, still excluded
            run_case(ctx, "C05", &w, &steps);
            ctx.stat("c05.sequences.same_handle_across_rps");
        }
    }
    let kinds = [Kind::RefFull, Kind::RefFullEmptyOk, Kind::RefForced, Kind::Map, Kind::Slot, Kind::MapArcMutex, Kind::MapArcRwLock, Kind::SlotArcMutex, Kind::SlotRwLock,
        Kind::MapMutex, Kind::MapRwLock, Kind::SlotArcRwLock, Kind::SlotMutex, Kind::RefArcMutex, Kind::RefArcRwLock, Kind::RefMutex, Kind::RefRwLock];
    let n = if ctx.thorough { 4000 } else { 400 };
    for i in 0..n {
        let kind = kinds[i % kinds.len()];
        // store content: several RPs, several credentials per RP, identical user handles across RPs
        let ncred = if matches!(kind, Kind::Slot | Kind::SlotArcMutex | Kind::SlotRwLock | Kind::SlotArcRwLock | Kind::SlotMutex) { ctx.rng.below(2) } else { ctx.rng.below(6) } as usize;
        let shared_handle = ctx.rng.bytes(8);
        let mut preload = vec![];
        for _ in 0..ncred {
            let rp = *ctx.rng.pick(&rps);
            let uh = match ctx.rng.below(3) { 0 => None, 1 => Some(shared_handle.clone()), _ => Some(ctx.rng.bytes_in(1, 16)) };
            let id = rand_id(ctx);
            let ctr = if ctx.rng.bool() { Some(ctx.rng.below(100) as u32) } else { None };
            preload.push(make_passkey(ctx, id, rp, uh, ctr, None));
        }
        let ids: Vec<(Vec<u8>, String)> = preload.iter().map(|p| (p.credential_id.to_vec(), p.rp_id.clone())).collect();
        let w = World { kind, counter_on: ctx.rng.bool(), id_len: 16, hm: Hm::None, preload };
        let mut steps = vec![];
        for _ in 0..ctx.rng.range(1, 4) {
            let rp = *ctx.rng.pick(&rps);
            // a list: absent, empty, hits for this RP, ids belonging to another RP, misses, mixtures
            let list: Option<Vec<Vec<u8>>> = match ctx.rng.below(7) {
                0 => None,
                1 => Some(vec![]),
                2 => Some(ids.iter().filter(|(_, r)| r == rp).map(|(i, _)| i.clone()).collect()),
                3 => Some(ids.iter().filter(|(_, r)| r != rp).map(|(i, _)| i.clone()).collect()),
                4 => Some(vec![rand_id(ctx), rand_id(ctx)]),
                5 => { let mut l: Vec<Vec<u8>> = ids.iter().map(|(i, _)| i.clone()).collect(); l.push(rand_id(ctx)); if ctx.rng.bool() { l.reverse(); } Some(l) }
                _ => if ids.is_empty() { None } else { let k = ctx.rng.below(ids.len() as u64) as usize; Some(vec![ids[k].0.clone()]) }
            };
            // ... long lists with the one held id late in them; ids that are a prefix / an extension of a held id, and the empty id
            let list = match (ctx.rng.below(8), ids.is_empty()) {
                (0, false) => { let k = ctx.rng.below(ids.len() as u64) as usize; let mut l: Vec<Vec<u8>> = (0..ctx.rng.range(8, 20)).map(|_| rand_id(ctx)).collect(); l.push(ids[k].0.clone()); for _ in 0..ctx.rng.below(3) { l.push(rand_id(ctx)); } ctx.stat("c05.list.long"); Some(l) }
                (1, false) => { let k = ctx.rng.below(ids.len() as u64) as usize; let h = ids[k].0.clone(); let mut ext = h.clone(); ext.push(ctx.rng.next() as u8);
                    ctx.stat("c05.list.prefix_or_extension_of_a_held_id");
                    Some(match ctx.rng.below(4) { 0 => vec![h[..h.len() - 1].to_vec()], 1 => vec![ext], 2 => vec![vec![]], _ => vec![h[..1].to_vec(), vec![], ext] }) }
                _ => list,
            };
            ctx.stat(match &list { None => "c05.list.absent", Some(l) if l.is_empty() => "c05.list.empty", Some(_) => "c05.list.nonempty" });
            // now and then some descriptors carry a credential type this library does not know
            let unk: Vec<usize> = match &list { Some(l) if !l.is_empty() && ctx.rng.below(5) == 0 => (0..l.len()).filter(|_| ctx.rng.below(3) != 0).collect(), _ => vec![] };
            if !unk.is_empty() { ctx.stat("c05.list.unknown_typed_entries"); }
            if ctx.rng.below(3) == 0 {
                let mut m = simple_make(ctx, rp); m.exclude = list; m.rk = ctx.rng.bool(); m.unk = unk; m.uv = ctx.rng.below(3) != 0;
                let unverified = !m.uv && ctx.rng.bool();
                let mut st = step(Op::Make(m));
                if unverified { st.uv = UvState { answer: Ok((true, false)), ..UvState::ok() }; ctx.stat("c05.make.user_not_verified"); }
                steps.push(st);
            } else {
                let mut g = simple_get(ctx, rp); g.allow = list; g.unk = unk;
                steps.push(step(Op::Get(g)));
            }
        }
        run_case(ctx, "C05", &w, &steps);
    }
}
