//! C06: every serialisation (JSON, CBOR, Debug, raw U2F message) of every value handed back by a ceremony —
//! WebAuthn and CTAP2 results, authenticator info, errors, the Debug rendering of stored passkeys — is
//! emitted together with the secrets read back from the store, for the Spec's scan.
use crate::au::*;
use crate::env::*;
use crate::util::{guarded, hexf, Ctx};
use passkey_authenticator::{extensions::HmacSecretConfig, Authenticator, CredentialIdLength, MemoryStore, U2fApi};
use passkey_client::{Client, DefaultClientData};
use passkey_types::ctap2::{extensions::{AuthenticatorPrfInputs, AuthenticatorPrfValues}, get_assertion, make_credential, Aaguid, Flags};
use passkey_types::webauthn::{self, AuthenticationExtensionsClientInputs, AuthenticationExtensionsPrfInputs, AuthenticationExtensionsPrfValues,
    PublicKeyCredentialDescriptor, PublicKeyCredentialParameters, PublicKeyCredentialType, UserVerificationRequirement};
use passkey_types::u2f::{AuthenticationParameter, AuthenticationRequest, RegisterRequest};
use passkey_types::Passkey;
use std::sync::{Arc, Mutex};
use url::Url;

fn secrets_of(ps: &[Passkey]) -> Vec<Vec<u8>> {
    let mut v = vec![];
    for p in ps {
        let (d, _, _) = key_parts(p);
        if !d.is_empty() { v.push(d); }
        if let Some(h) = &p.extensions.hmac_secret { v.push(h.cred_with_uv.clone()); if let Some(w) = &h.cred_without_uv { v.push(w.clone()); } }
    }
    v
}

/// the private member (COSE label -4) of an attested key, if the authenticator data carries one: by itself a
/// leak, and the value to search the other renderings for when the store no longer holds the private half
fn attested_private_member(auth_data: &[u8]) -> Vec<Vec<u8>> {
    let mut v = vec![];
    if let Ok(ad) = passkey_types::ctap2::AuthenticatorData::from_slice(auth_data) {
        if let Some(acd) = &ad.attested_credential_data {
            for (k, val) in &acd.key.params {
                if *k == coset::Label::Int(-4) { if let Some(b) = val.as_bytes() { v.push(b.clone()); } }
            }
        }
    }
    v
}

fn emit(ctx: &mut Ctx, label: &str, secrets: &[Vec<u8>], blob: &[u8]) {
    let s = if secrets.is_empty() { "N".to_string() } else { secrets.iter().map(|x| hexf(x)).collect::<Vec<_>>().join(",") };
    ctx.line(&format!("sec.scan {} {} {}", label, s, hexf(blob)), "-");
    ctx.stat(&format!("c06.scan.{}", label.split(':').next().unwrap()));
}

fn cbor<T: serde::Serialize>(v: &T) -> Vec<u8> { let mut out = vec![]; let _ = ciborium::ser::into_writer(v, &mut out); out }

pub fn gen(ctx: &mut Ctx) {
    // ---- controls: a planted secret in each rendering must be found
    {
        let s = ctx.rng.bytes(32);
        ctx.line("sec.reset", "-");
        let raw: Vec<u8> = [vec![1u8, 2, 3], s.clone(), vec![4u8]].concat();
        emit(ctx, "control-raw", &[s.clone()], &raw);
        emit(ctx, "control-hex", &[s.clone()], format!("key: {}", crate::util::hex(&s)).as_bytes());
        emit(ctx, "control-HEX", &[s.clone()], crate::util::hex(&s).to_uppercase().as_bytes());
        emit(ctx, "control-debug", &[s.clone()], format!("Secret {{ d: {:?} }}", s).as_bytes());
        emit(ctx, "control-debug-pretty", &[s.clone()], format!("{:#?}", s).as_bytes());
        emit(ctx, "control-json", &[s.clone()], serde_json::to_vec(&s).unwrap().as_slice());
        emit(ctx, "control-base64", &[s.clone()], passkey_types::encoding::base64(&s).as_bytes());
        emit(ctx, "control-base64url", &[s.clone()], format!("{{\"d\":\"{}\"}}", passkey_types::encoding::base64url(&s)).as_bytes());
        emit(ctx, "control-cbor", &[s.clone()], &cbor(&passkey_types::Bytes::from(s.clone())));
        ctx.line("sec.end", "-");
    }
    let n = if ctx.thorough { 200 } else { 30 };
    for i in 0..n {
        match i % 4 {
            0 => one(ctx, i, MemoryStore::new()),
            1 => one(ctx, i, RefStore::new(d_full_pub)),          // stores the user handle only on request: non-discoverable credentials exist
            2 => one(ctx, i, RefStore::new(d_forced_pub)),
            _ => one(ctx, i, RefStore::new(d_non_pub)),
        }
    }
}

fn one<S: Inner + 'static>(ctx: &mut Ctx, i: usize, inner: S) {
    let url = "https://www.example.com";
        ctx.line("sec.reset", "-");
        let log = new_log();
        let uvst = Arc::new(Mutex::new(UvState::ok()));
        let store = RecStore::new(inner, log.clone());
        let mut auth = Authenticator::new(Aaguid::from(crate::util::AAGUID), store, SharedUv { st: uvst.clone(), log: log.clone(), yields: false });
        auth.set_make_credentials_with_signature_counter(i % 2 == 0);
        auth.set_make_credential_id_length(CredentialIdLength::from(*ctx.rng.pick(&[16u8, 32, 64])));
        let hm = match i % 4 { 0 => None, 1 => Some(HmacSecretConfig::new_with_uv_only().enable_on_make_credential()), 2 => Some(HmacSecretConfig::new_without_uv().enable_on_make_credential()), _ => Some(HmacSecretConfig::new_without_uv()) };
        if let Some(c) = hm { auth = auth.hmac_secret(c); }
        let mut client = Client::new(auth);
        let all = |c: &Client<RecStore<S>, SharedUv, public_suffix::PublicSuffixList>| -> Vec<Passkey> { c.authenticator().store().inner.all() };
        // --- authenticator info
        let info = crate::env::block_on(client.authenticator().get_info());
        emit(ctx, "info:cbor", &[], &cbor(&info));
        emit(ctx, "info:debug", &[], format!("{:?}", info).as_bytes());
        let prf_in = |ctx: &mut Ctx| AuthenticationExtensionsPrfInputs { eval: Some(AuthenticationExtensionsPrfValues { first: ctx.rng.bytes_in(1, 40).into(), second: if ctx.rng.bool() { Some(ctx.rng.bytes(8).into()) } else { None } }), eval_by_credential: None };
        let mut ids: Vec<Vec<u8>> = vec![];
        // one account of the case registers more than once (a store that can list by RP sees the earlier credential)
        let returning_user = ctx.rng.bytes_in(1, 16);
        for step in 0..ctx.rng.range(2, 5) {
            // --- WebAuthn registration
            let opts = webauthn::CredentialCreationOptions { public_key: webauthn::PublicKeyCredentialCreationOptions {
                rp: webauthn::PublicKeyCredentialRpEntity { id: Some("example.com".into()), name: "rp".into() },
                user: webauthn::PublicKeyCredentialUserEntity { id: if step % 2 == 0 { returning_user.clone() } else { ctx.rng.bytes_in(1, 16) }.into(), display_name: "d".into(), name: "n".into() },
                challenge: ctx.rng.bytes(32).into(),
                pub_key_cred_params: vec![PublicKeyCredentialParameters { ty: PublicKeyCredentialType::PublicKey, alg: coset::iana::Algorithm::ES256 }],
                timeout: None, exclude_credentials: if step == 2 && !ids.is_empty() { Some(vec![PublicKeyCredentialDescriptor { ty: PublicKeyCredentialType::PublicKey, id: ids[0].clone().into(), transports: None }]) } else { None },
                // the returning account asks for discoverable credentials (its handle is stored with them)
                authenticator_selection: if step % 2 == 0 { Some(webauthn::AuthenticatorSelectionCriteria { authenticator_attachment: None, resident_key: Some(webauthn::ResidentKeyRequirement::Required), require_resident_key: true, user_verification: Default::default() }) } else { None },
                hints: None, attestation: Default::default(), attestation_formats: None,
                extensions: Some(AuthenticationExtensionsClientInputs { cred_props: Some(true), prf: Some(prf_in(ctx)), prf_already_hashed: None }) } };
            let origin = Url::parse(url).unwrap();
            let res = guarded(|| crate::env::block_on(client.register(&origin, opts, DefaultClientData)));
            let mut secrets = secrets_of(&all(&client));
            if let Some(Ok(c)) = &res { secrets.extend(attested_private_member(&c.response.authenticator_data)); }
            match res {
                Some(Ok(c)) => {
                    ids.push(c.raw_id.to_vec());
                    emit(ctx, "register:json", &secrets, &serde_json::to_vec(&c).unwrap());
                    emit(ctx, "register:debug", &secrets, format!("{:?}", c).as_bytes());
                    emit(ctx, "register:debug-pretty", &secrets, format!("{:#?}", c).as_bytes());
                    emit(ctx, "register:attestation-object", &secrets, &c.response.attestation_object);
                }
                Some(Err(e)) => { emit(ctx, "error:debug", &secrets, format!("{:?}", e).as_bytes()); }
                None => { emit(ctx, "panic", &secrets, b"panic"); }
            }
            // --- the stored passkeys as Debug renders them, and what the public-key helper makes of a stored key
            for p in all(&client) {
                match guarded(|| passkey_authenticator::public_key_der_from_cose_key(&p.key)) {
                    Some(Ok(der)) => emit(ctx, "public_key_der_from_cose_key:stored", &secrets, &der),
                    Some(Err(e)) => emit(ctx, "error:status", &secrets, format!("{:?}", e).as_bytes()),
                    None => emit(ctx, "panic", &secrets, b"panic"),
                }
                emit(ctx, "passkey:debug", &secrets, format!("{:?}", p).as_bytes());
                emit(ctx, "passkey:debug-pretty", &secrets, format!("{:#?}", p).as_bytes());
            }
            // --- WebAuthn authentication
            if let Some(id) = ids.last().cloned() {
                let opts = webauthn::CredentialRequestOptions { public_key: webauthn::PublicKeyCredentialRequestOptions {
                    challenge: ctx.rng.bytes(32).into(), timeout: None, rp_id: Some("example.com".into()),
                    // named, or - the discoverable flow - not named at all / an empty list
                    allow_credentials: match step % 3 { 0 => Some(vec![PublicKeyCredentialDescriptor { ty: PublicKeyCredentialType::PublicKey, id: id.clone().into(), transports: None }]), 1 => None, _ => Some(vec![]) },
                    user_verification: *ctx.rng.pick(&[UserVerificationRequirement::Preferred, UserVerificationRequirement::Discouraged]), hints: None,
                    attestation: Default::default(), attestation_formats: None,
                    extensions: Some(AuthenticationExtensionsClientInputs { cred_props: None, prf: Some(prf_in(ctx)), prf_already_hashed: None }) } };
                let res = guarded(|| crate::env::block_on(client.authenticate(&origin, opts, DefaultClientData)));
                let secrets = secrets_of(&all(&client));
                match res {
                    Some(Ok(c)) => {
                        emit(ctx, "authenticate:json", &secrets, &serde_json::to_vec(&c).unwrap());
                        emit(ctx, "authenticate:debug", &secrets, format!("{:?}", c).as_bytes());
                    }
                    Some(Err(e)) => { emit(ctx, "error:debug", &secrets, format!("{:?}", e).as_bytes()); }
                    None => { emit(ctx, "panic", &secrets, b"panic"); }
                }
            }
            // --- CTAP2 level
            let mut m = simple_make(ctx, "example.com");
            m.ext = Some((Some(true), false, Some(PrfI { eval: Some(PrfV { first: [7u8; 32], second: Some([8u8; 32]) }), by_cred: None })));
            let req = make_credential::Request { client_data_hash: m.cdh.clone().into(),
                rp: make_credential::PublicKeyCredentialRpEntity { id: "example.com".into(), name: None },
                user: webauthn::PublicKeyCredentialUserEntity { id: m.user.clone().into(), display_name: "d".into(), name: "n".into() },
                pub_key_cred_params: vec![PublicKeyCredentialParameters { ty: PublicKeyCredentialType::PublicKey, alg: coset::iana::Algorithm::ES256 }],
                exclude_list: None,
                // every extension input the request type has, the ones the authenticator ignores included
                extensions: Some(make_credential::ExtensionInputs { hmac_secret: Some(true),
                    hmac_secret_mc: if step % 2 == 0 { Some(passkey_types::ctap2::extensions::HmacGetSecretInput { key_agreement: ciborium::value::Value::Null, salt_enc: ctx.rng.bytes(if step % 4 == 0 { 32 } else { 64 }).into(), salt_auth: vec![0u8; 16].into(), pin_uv_auth_protocol: None }) } else { None },
                    prf: Some(AuthenticatorPrfInputs { eval: Some(AuthenticatorPrfValues { first: [7u8; 32], second: Some([8u8; 32]) }), eval_by_credential: None }) }),
                options: make_credential::Options { rk: step % 3 != 1, up: true, uv: step % 2 == 0 }, pin_auth: None, pin_protocol: None };
            let res = guarded(|| crate::env::block_on(client.authenticator_mut().make_credential(req)));
            let mut secrets = secrets_of(&all(&client));
            if let Some(Ok(r)) = &res { secrets.extend(attested_private_member(&r.auth_data.to_vec())); }
            let mut ctap_id = None;
            match res {
                Some(Ok(r)) => {
                    ctap_id = r.auth_data.attested_credential_data.as_ref().map(|a| a.credential_id().to_vec());
                    emit(ctx, "make_credential:cbor", &secrets, &cbor(&r));
                    emit(ctx, "make_credential:debug", &secrets, format!("{:?}", r).as_bytes());
                    emit(ctx, "make_credential:auth_data", &secrets, &r.auth_data.to_vec());
                }
                Some(Err(e)) => { emit(ctx, "error:status", &secrets, { let d = format!("{:?}", e); format!("{} {}", d, u8::from(e)) }.as_bytes()); }
                None => { emit(ctx, "panic", &secrets, b"panic"); }
            }
            if let Some(id) = ctap_id {
                let req = get_assertion::Request { rp_id: "example.com".into(), client_data_hash: ctx.rng.bytes(32).into(),
                    allow_list: match step % 3 { 1 => None, 2 => Some(vec![]), _ => Some(vec![PublicKeyCredentialDescriptor { ty: PublicKeyCredentialType::PublicKey, id: id.into(), transports: None }]) },
                    extensions: Some(get_assertion::ExtensionInputs {
                        hmac_secret: if step % 2 == 1 { Some(passkey_types::ctap2::extensions::HmacGetSecretInput { key_agreement: ciborium::value::Value::Null, salt_enc: ctx.rng.bytes(32).into(), salt_auth: vec![0u8; 16].into(), pin_uv_auth_protocol: None }) } else { None },
                        prf: Some(AuthenticatorPrfInputs { eval: Some(AuthenticatorPrfValues { first: [9u8; 32], second: None }), eval_by_credential: None }) }),
                    options: make_credential::Options { rk: false, up: true, uv: step % 2 == 1 }, pin_auth: None, pin_protocol: None };
                let res = guarded(|| crate::env::block_on(client.authenticator_mut().get_assertion(req)));
                let secrets = secrets_of(&all(&client));
                match res {
                    Some(Ok(r)) => {
                        emit(ctx, "get_assertion:cbor", &secrets, &cbor(&r));
                        emit(ctx, "get_assertion:debug", &secrets, format!("{:?}", r).as_bytes());
                    }
                    Some(Err(e)) => { emit(ctx, "error:status", &secrets, { let d = format!("{:?}", e); format!("{} {}", d, u8::from(e)) }.as_bytes()); }
                    None => { emit(ctx, "panic", &secrets, b"panic"); }
                }
            }
        }
        // --- U2F
        let (challenge, application): ([u8; 32], [u8; 32]) = (ctx.rng.bytes(32).try_into().unwrap(), ctx.rng.bytes(32).try_into().unwrap());
        let handle = match i % 4 { 3 => vec![], 2 => ctx.rng.bytes(32), _ => ctx.rng.bytes_in(1, 64) };      // empty, exactly the size of a private scalar, any other
        let res = guarded(|| crate::env::block_on(U2fApi::register(client.authenticator_mut(), RegisterRequest { challenge, application }, &handle)));
        let secrets = secrets_of(&all(&client));
        match res {
            Some(Ok(r)) => { emit(ctx, "u2f-register:raw", &secrets, &r.encode()); }
            Some(Err(e)) => { emit(ctx, "error:u2f", &secrets, format!("{:?}", e).as_bytes()); }
            None => { emit(ctx, "panic", &secrets, b"panic"); }
        }
        // every control byte, with and without reported presence
        for (parameter, flags) in [(AuthenticationParameter::EnforceUserPresence, Flags::UP), (AuthenticationParameter::DontEnforceUserPresence, Flags::UP),
            (AuthenticationParameter::DontEnforceUserPresence, Flags::empty()), (AuthenticationParameter::CheckOnly, Flags::UP)] {
            let res = guarded(|| crate::env::block_on(U2fApi::authenticate(client.authenticator(), AuthenticationRequest { parameter, challenge, application, key_handle: handle.clone() }, 7, flags)));
            match res {
                Some(Ok(r)) => { emit(ctx, "u2f-authenticate:raw", &secrets, &r.encode()); }
                Some(Err(e)) => { emit(ctx, "error:u2f", &secrets, format!("{:?}", e).as_bytes()); }
                None => { emit(ctx, "panic", &secrets, b"panic"); }
            }
        }
        ctx.line("sec.end", "-");
}
