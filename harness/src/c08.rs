//! C08: signature counters over sequences of assertions interleaved over several credentials.
use crate::au::*;
use crate::util::Ctx;

/// a credential registered through U2F counts its CTAP2 assertions from zero like any other
fn u2f_registered(ctx: &mut Ctx) {
    for kind in [Kind::RefFull, Kind::Map, Kind::Slot] {
        let app: Vec<u8> = (0..32).map(|_| 0x41 + ctx.rng.below(26) as u8).collect();
        let handle = ctx.rng.bytes(16);
        let rp = passkey_types::encoding::base64url(&app);
        let w = World { kind, counter_on: true, id_len: 16, hm: Hm::None, preload: vec![] };
        let mut steps = vec![step(Op::U2fReg { app: app.clone(), chal: ctx.rng.bytes(32), handle: handle.clone() })];
        for _ in 0..3 { let mut g = simple_get(ctx, &rp); g.allow = Some(vec![handle.clone()]); steps.push(step(Op::Get(g))); }
        run_case(ctx, "C08", &w, &steps);
        ctx.stat("c08.u2f_registered_credential");
    }
}

pub fn gen(ctx: &mut Ctx) {
    u2f_registered(ctx);
    boundary(ctx);
    rest(ctx);
}

/// the counter boundary (also run against a build with overflow checks and debug assertions)
pub fn boundary(ctx: &mut Ctx) {
    // ---- corpus first: the boundary that overflowed before the repair (fixed: C08)
    for kind in [Kind::RefFull, Kind::Map, Kind::Slot] {
        for start in [u32::MAX - 2, u32::MAX - 1, u32::MAX] {
            let id = vec![0xB0, 7];
            let pk = make_passkey(ctx, id.clone(), "example.com", Some(vec![1]), Some(start), None);
            let w = World { kind, counter_on: true, id_len: 16, hm: Hm::None, preload: vec![pk] };
            let steps: Vec<Step> = (0..3).map(|_| { let mut g = simple_get(ctx, "example.com"); g.allow = Some(vec![id.clone()]); step(Op::Get(g)) }).collect();
            run_case(ctx, "C08", &w, &steps);
            ctx.stat("c08.boundary");
        }
    }
}

fn rest(ctx: &mut Ctx) {
    let starts: [Option<u32>; 7] = [None, Some(0), Some(1), Some(1 << 31), Some(u32::MAX - 1), Some(u32::MAX), Some(12345)];
    let n = if ctx.thorough { 1500 } else { 150 };
    for i in 0..n {
        let kind = [Kind::RefFull, Kind::Map, Kind::RefForced, Kind::MapArcMutex][i % 4];
        let hm = if i % 5 == 0 { Hm::NoUv } else { Hm::None };
        let ncred = ctx.rng.range(1, 4) as usize;
        let mut preload = vec![];
        for j in 0..ncred {
            let start = if ctx.rng.bool() { *ctx.rng.pick(&starts) } else { Some(ctx.rng.next() as u32) };
            let hs = if hm == Hm::NoUv && ctx.rng.bool() { let a = ctx.rng.bytes(32); let b = ctx.rng.bytes(32); Some((a, Some(b))) } else { None };
            preload.push(make_passkey(ctx, vec![0xB1, j as u8, i as u8], "example.com", Some(vec![j as u8]), start, hs));
        }
        let ids: Vec<Vec<u8>> = preload.iter().map(|p| p.credential_id.to_vec()).collect();
        let w = World { kind, counter_on: ctx.rng.bool(), id_len: 16, hm, preload };
        let mut steps = vec![];
        for _ in 0..ctx.rng.range(2, 10) {
            if ctx.rng.below(6) == 0 {
                // registrations in between (counter on or off), half of them for a user who already has a credential here
                let mut m = simple_make(ctx, "example.com");
                if ctx.rng.bool() { m.user = vec![ctx.rng.below(ncred as u64) as u8]; ctx.stat("c08.reregistration_of_existing_user"); }
                steps.push(step(Op::Make(m)));
            } else {
                let mut g = simple_get(ctx, "example.com");
                g.allow = Some(vec![ctx.rng.pick(&ids).clone()]);
                // ... or several of the stored credentials: only the one that signs moves
                if ctx.rng.below(4) == 0 { g.allow = Some(ids.clone()); ctx.stat("c08.allow_list_names_all"); }
                // every successful assertion counts, also one made without a presence test or without verification
                match ctx.rng.below(6) { 0 => { g.up = false; ctx.stat("c08.assertion_without_presence_test"); } 1 => { g.uv = false; } 2 => { g.up = false; g.uv = false; } _ => {} }
                if hm == Hm::NoUv && ctx.rng.bool() {
                    g.ext = Some((false, Some(PrfI { eval: Some(PrfV { first: [7u8; 32], second: None }), by_cred: None })));
                }
                let silent = !g.up;
                let mut st = step(Op::Get(g));
                // a validator that reports no presence when none was asked for (half of the silent assertions)
                if silent && ctx.rng.bool() { st.uv.answer = Ok((false, true)); ctx.stat("c08.assertion_without_reported_presence"); }
                else if ctx.rng.below(8) == 0 { st.uv.answer = Ok((true, false)); }   // denied now and then: no counter step
                // the store refuses the write-back now and then (store call 0 = lookup, 1 = update): no success may be reported
                if ctx.rng.below(8) == 0 { st.faults = vec![None, Some(*ctx.rng.pick(&[0x7Fu8, 0x28, 0x01]))]; ctx.stat("c08.update_fault"); }
                steps.push(st);
            }
        }
        ctx.stat_n("c08.assertions", steps.len() as u64);
        run_case(ctx, "C08", &w, &steps);
    }
}
