//! C19: two or three ceremonies on authenticators that share one store through the library's lock wrappers,
//! interleaved at every suspension point (the store and user-validation mocks yield before every call).
//! All interleavings of each scenario are executed on the real code with hand-polled futures.
use crate::au::*;
use crate::env::*;
use crate::util::{guarded, hexf, Ctx};
use passkey_authenticator::{Authenticator, CredentialIdLength, MemoryStore};
use passkey_types::ctap2::Aaguid;
use passkey_types::Passkey;
use std::future::Future;
use std::pin::Pin;
use std::sync::{Arc, Mutex};
use std::task::{Context, Poll};

#[derive(Clone)]
pub enum COp { Get(GetOp), Make(MakeOp), U2f { app: Vec<u8>, chal: Vec<u8>, handle: Vec<u8> } }

/// a store that suspends once inside every lookup, save and update (a slow backend): behind a lock wrapper the
/// lock is then held across a suspension point and the wrappers are really contended
#[derive(Clone)]
pub struct SlowStore(pub MemoryStore);
#[async_trait::async_trait]
impl passkey_authenticator::CredentialStore for SlowStore {
    type PasskeyItem = Passkey;
    async fn find_credentials(&self, ids: Option<&[passkey_types::webauthn::PublicKeyCredentialDescriptor]>, rp_id: &str) -> Result<Vec<Passkey>, passkey_types::ctap2::StatusCode> {
        yield_once().await; self.0.find_credentials(ids, rp_id).await }
    async fn save_credential(&mut self, cred: Passkey, u: passkey_types::ctap2::make_credential::PublicKeyCredentialUserEntity, r: passkey_types::ctap2::make_credential::PublicKeyCredentialRpEntity, o: passkey_types::ctap2::get_assertion::Options) -> Result<(), passkey_types::ctap2::StatusCode> {
        yield_once().await; self.0.save_credential(cred, u, r, o).await }
    async fn update_credential(&mut self, cred: Passkey) -> Result<(), passkey_types::ctap2::StatusCode> { yield_once().await; self.0.update_credential(cred).await }
    async fn get_info(&self) -> passkey_authenticator::StoreInfo { self.0.get_info().await }
}
impl Inner for SlowStore {
    fn all(&self) -> Vec<Passkey> { self.0.values().cloned().collect() }
    fn put(&mut self, p: Passkey) { self.0.insert(p.credential_id.clone().into(), p); }
}

enum Out { U2f(Result<passkey_types::u2f::RegisterResponse, passkey_types::ctap2::U2FError>), Get(Result<passkey_types::ctap2::get_assertion::Response, passkey_types::ctap2::StatusCode>), Make(Result<passkey_types::ctap2::make_credential::Response, passkey_types::ctap2::StatusCode>) }

fn summary(o: Out) -> String {
    match o {
        Out::Get(Ok(r)) => { let ad = r.auth_data.to_vec(); format!("ok:{}:{}", r.credential.as_ref().map(|c| hexf(&c.id)).unwrap_or("N".into()), u32::from_be_bytes([ad[33], ad[34], ad[35], ad[36]])) }
        Out::Get(Err(e)) => format!("err:{}", u8::from(e)),
        Out::Make(Ok(r)) => format!("ok:{}", r.auth_data.attested_credential_data.as_ref().map(|a| hexf(a.credential_id())).unwrap_or("N".into())),
        Out::Make(Err(e)) => format!("err:{}", u8::from(e)),
        Out::U2f(Ok(r)) => format!("ok:{}", hexf(&r.key_handle)),
        Out::U2f(Err(_)) => "err:1".to_string(),
    }
}

/// run the ceremonies under `sched` (None: each alone to completion, to learn how many polls it needs)
fn execute<S: Inner + Clone + 'static>(shared: S, counter_on: bool, ops: &[COp], uv: UvState, sched: Option<&[usize]>) -> (Vec<String>, Vec<usize>, String, Vec<String>) { execute_f(shared, counter_on, ops, uv, sched, &[]) }
/// `faults[i]`: fault schedule of the i-th authenticator's store wrapper (store calls of that ceremony, 0-based)
fn execute_f<S: Inner + Clone + 'static>(shared: S, counter_on: bool, ops: &[COp], uv: UvState, sched: Option<&[usize]>, faults: &[Vec<Option<u8>>]) -> (Vec<String>, Vec<usize>, String, Vec<String>) {
    let log = new_log();
    let uvst = Arc::new(Mutex::new(uv));
    let mut auths: Vec<Authenticator<RecStore<S>, SharedUv>> = ops.iter().enumerate().map(|(i, _)| {
        let mut store = RecStore::new(shared.clone(), log.clone()); store.yields = true;
        if let Some(f) = faults.get(i) { store.faults = f.clone(); }
        let mut a = Authenticator::new(Aaguid::from(crate::util::AAGUID), store, SharedUv { st: uvst.clone(), log: log.clone(), yields: true });
        a.set_make_credentials_with_signature_counter(counter_on);
        a.set_make_credential_id_length(CredentialIdLength::from(16u8));
        a
    }).collect();
    let saved: Vec<Arc<Mutex<Option<Passkey>>>> = auths.iter().map(|a| a.store().last_saved.clone()).collect();
    let mut futs: Vec<Pin<Box<dyn Future<Output = Out> + '_>>> = vec![];
    for (a, op) in auths.iter_mut().zip(ops.iter()) {
        match op.clone() {
            COp::Get(g) => { let req = g.real_pub(); futs.push(Box::pin(async move { Out::Get(a.get_assertion(req).await) })); }
            COp::Make(m) => { let req = m.real_pub(); futs.push(Box::pin(async move { Out::Make(a.make_credential(req).await) })); }
            COp::U2f { app, chal, handle } => {
                let mut a32 = [0u8; 32]; a32.copy_from_slice(&app[..32]); let mut c32 = [0u8; 32]; c32.copy_from_slice(&chal[..32]);
                let req = passkey_types::u2f::RegisterRequest { challenge: c32, application: a32 };
                futs.push(Box::pin(async move { Out::U2f(passkey_authenticator::U2fApi::register(a, req, &handle).await) }));
            }
        }
    }
    let w = noop_waker();
    let mut cx = Context::from_waker(&w);
    let mut res: Vec<Option<Out>> = ops.iter().map(|_| None).collect();
    let mut polls = vec![0usize; ops.len()];
    // park every ceremony before its first call
    for i in 0..futs.len() { if let Poll::Ready(o) = futs[i].as_mut().poll(&mut cx) { res[i] = Some(o); } }
    match sched {
        Some(s) => { for &i in s { if res[i].is_none() { polls[i] += 1; if let Poll::Ready(o) = futs[i].as_mut().poll(&mut cx) { res[i] = Some(o); } } } }
        None => { for i in 0..futs.len() { while res[i].is_none() && polls[i] < 64 { polls[i] += 1; if let Poll::Ready(o) = futs[i].as_mut().poll(&mut cx) { res[i] = Some(o); } } } }
    }
    // anything still unfinished gets more turns: a ceremony that never finishes is stuck (deadlock)
    let mut rounds = 0;
    while res.iter().any(|r| r.is_none()) && rounds < 200 {
        for i in 0..futs.len() { if res[i].is_none() { if let Poll::Ready(o) = futs[i].as_mut().poll(&mut cx) { res[i] = Some(o); } } }
        rounds += 1;
    }
    let extra = rounds;
    let sums: Vec<String> = res.into_iter().map(|r| match r { Some(o) => summary(o), None => "stuck".to_string() }).collect();
    drop(futs);
    let draws: Vec<String> = saved.iter().map(|s| s.lock().unwrap().clone().map(|p| { let (d, x, y) = key_parts(&p);
        let (s1, s2) = match &p.extensions.hmac_secret { Some(h) => (hexf(&h.cred_with_uv), opt_hex(h.cred_without_uv.as_deref())), None => ("N".into(), "N".into()) };
        format!("{}:{}:{}:{}:{}:{}", hexf(&p.credential_id), hexf(&d), hexf(&x), hexf(&y), s1, s2) }).unwrap_or("N".into())).collect();
    let store = snap_pub(&auths[0].store().inner.all());
    let mut sums2 = sums; if extra > 0 && sched.is_some() { sums2.push(format!("extra-rounds:{}", extra)); }
    (sums2, polls, store, draws)
}

fn merges(counts: &[usize], cur: &mut Vec<usize>, left: &mut Vec<usize>, out: &mut Vec<Vec<usize>>, cap: usize) {
    if out.len() >= cap { return; }
    if left.iter().all(|&c| c == 0) { out.push(cur.clone()); return; }
    for i in 0..counts.len() { if left[i] > 0 { left[i] -= 1; cur.push(i); merges(counts, cur, left, out, cap); cur.pop(); left[i] += 1; } }
}

fn scenario<S: Inner + Clone + 'static>(ctx: &mut Ctx, kind_name: &str, mk: &dyn Fn(&[Passkey]) -> S, preload: &[Passkey], counter_on: bool, ops: &[COp], cap: usize) {
    let uv = UvState::ok();
    // how many calls does each ceremony make when alone?
    let (_, polls, _, _) = execute(mk(preload), counter_on, ops, uv, None);
    let mut all = vec![];
    if polls.iter().any(|&p| p >= 64) {
        // a ceremony that does not finish even when alone: one round-robin schedule shows it
        all.push((0..8 * ops.len()).map(|i| i % ops.len()).collect());
    } else {
        merges(&polls, &mut vec![], &mut polls.clone(), &mut all, usize::MAX.min(200_000));
    }
    // all interleavings when few, otherwise a seeded sample that keeps the first and last ones
    let chosen: Vec<Vec<usize>> = if all.len() <= cap { all } else {
        let mut v = vec![all[0].clone(), all[all.len() - 1].clone()];
        for _ in 0..cap - 2 { v.push(all[ctx.rng.below(all.len() as u64) as usize].clone()); }
        v };
    for sched in chosen {
        let r = guarded(|| execute(mk(preload), counter_on, ops, uv, Some(&sched)));
        ctx.line(&format!("au.reset C19 {} {} 16 none", kind_name, counter_on as u8), "");
        for p in preload { ctx.line(&format!("au.load {}", passkey_line(p)), ""); }
        match r {
            None => { ctx.line(&format!("cc.run {}", sched.iter().map(|i| i.to_string()).collect::<Vec<_>>().join(",")), "panic"); }
            Some((sums, _, store, draws)) => {
                for (i, op) in ops.iter().enumerate() {
                    match op { COp::Get(g) => ctx.line(&format!("cc.thread G {} {}", g.enc(), uv.enc()), ""),
                               COp::Make(m) => ctx.line(&format!("cc.thread M {} {} {}", m.enc(), uv.enc(), draws[i]), ""),
                               COp::U2f { handle, .. } => ctx.line(&format!("cc.thread U {}", hexf(handle)), "") }
                }
                ctx.line(&format!("cc.run {}", sched.iter().map(|i| i.to_string()).collect::<Vec<_>>().join(",")), &format!("res={} store={}", sums.join("|"), store));
            }
        }
        ctx.line("au.end", "");
        ctx.stat("c19.interleavings");
    }
}

/// slow-store scenarios: arbitrary poll orders (a poll of a ceremony waiting for the lock makes no progress, so
/// these are not call-by-call schedules of the model): only the statement's clauses are evaluated
fn scenario_slow<S: Inner + Clone + 'static>(ctx: &mut Ctx, label: &str, mk: &dyn Fn(&[Passkey]) -> S, preload: &[Passkey], ops: &[COp], count: usize) {
    let uv = UvState::ok();
    for k in 0..count {
        // strict alternation first, then seeded random orders; 12 polls per ceremony, the executor finishes the rest
        let sched: Vec<usize> = if k == 0 { (0..12 * ops.len()).map(|i| i % ops.len()).collect() } else { (0..12 * ops.len()).map(|_| ctx.rng.below(ops.len() as u64) as usize).collect() };
        let r = guarded(|| execute(mk(preload), true, ops, uv, Some(&sched)));
        ctx.line(&format!("au.reset C19 map 1 16 none"), "");
        for p in preload { ctx.line(&format!("au.load {}", passkey_line(p)), ""); }
        match r {
            None => { ctx.line(&format!("cc.slow {} {}", label, sched.iter().map(|i| i.to_string()).collect::<Vec<_>>().join(",")), "panic"); }
            Some((sums, _, store, draws)) => {
                for (i, op) in ops.iter().enumerate() {
                    match op { COp::Get(g) => ctx.line(&format!("cc.thread G {} {}", g.enc(), uv.enc()), ""),
                               COp::Make(m) => ctx.line(&format!("cc.thread M {} {} {}", m.enc(), uv.enc(), draws[i]), ""),
                               COp::U2f { handle, .. } => ctx.line(&format!("cc.thread U {}", hexf(handle)), "") }
                }
                let sums: Vec<String> = sums.into_iter().filter(|s| !s.starts_with("extra-rounds")).collect();
                ctx.line(&format!("cc.slow {} {}", label, sched.iter().map(|i| i.to_string()).collect::<Vec<_>>().join(",")), &format!("res={} store={}", sums.join("|"), store));
            }
        }
        ctx.line("au.end", "");
        ctx.stat("c19.slow_store_runs");
    }
}

/// scenarios judged by the statement's clauses alone under given call-by-call schedules (the model is not consulted):
/// store failures in one of the ceremonies, validators that report no presence
fn scenario_spec<S: Inner + Clone + 'static>(ctx: &mut Ctx, kind_name: &str, label: &str, mk: &dyn Fn(&[Passkey]) -> S, preload: &[Passkey], ops: &[COp], uv: UvState, faults: &[Vec<Option<u8>>]) {
    let (_, polls, _, _) = execute_f(mk(preload), true, ops, uv, None, faults);
    if polls.iter().any(|&p| p >= 64) { return; }
    // the serial orders (every permutation of whole ceremonies) and a few interleavings
    let n = ops.len();
    let mut scheds: Vec<Vec<usize>> = vec![];
    let mut order: Vec<usize> = (0..n).collect();
    for _ in 0..(if n == 2 { 2 } else { 6 }) {
        scheds.push(order.iter().flat_map(|&i| std::iter::repeat(i).take(polls[i])).collect());
        let (a, b) = (ctx.rng.below(n as u64) as usize, ctx.rng.below(n as u64) as usize); order.swap(a, b);
        if n == 2 { order = vec![1, 0]; }
    }
    let mut all = vec![]; merges(&polls, &mut vec![], &mut polls.clone(), &mut all, 400);
    for _ in 0..6 { if !all.is_empty() { scheds.push(all[ctx.rng.below(all.len() as u64) as usize].clone()); } }
    for sched in scheds {
        let r = guarded(|| execute_f(mk(preload), true, ops, uv, Some(&sched), faults));
        ctx.line(&format!("au.reset C19 {} 1 16 none", kind_name), "");
        for p in preload { ctx.line(&format!("au.load {}", passkey_line(p)), ""); }
        let s = sched.iter().map(|i| i.to_string()).collect::<Vec<_>>().join(",");
        match r {
            None => { ctx.line(&format!("cc.spec {} {}", label, s), "panic"); }
            Some((sums, _, store, draws)) => {
                for (i, op) in ops.iter().enumerate() {
                    match op { COp::Get(g) => ctx.line(&format!("cc.thread G {} {}", g.enc(), uv.enc()), ""),
                               COp::Make(m) => ctx.line(&format!("cc.thread M {} {} {}", m.enc(), uv.enc(), draws[i]), ""),
                               COp::U2f { handle, .. } => ctx.line(&format!("cc.thread U {}", hexf(handle)), "") }
                }
                ctx.line(&format!("cc.spec {} {}", label, s), &format!("res={} store={}", sums.join("|"), store));
            }
        }
        ctx.line("au.end", "");
        ctx.stat(&format!("c19.spec_only.{}", label));
    }
}

pub fn gen(ctx: &mut Ctx) {
    // every line is written out at once: if a ceremony never returns, the stream ends with the scenario it belongs to
    ctx.flush_each = true;
    let rp = "example.com";
    // ---- registrations of both kinds on stores of every capability behind both wrappers (all interleavings)
    for wrapper in 0..2 {
        for (kname, d) in [("ref:full", d_full_pub as fn() -> passkey_authenticator::DiscoverabilitySupport), ("ref:forced", d_forced_pub), ("ref:nondisc", d_non_pub)] {
            let make = |ctx: &mut Ctx, rk: bool| { let mut m = simple_make(ctx, rp); m.rk = rk; COp::Make(m) };
            let ops = if kname == "ref:nondisc" { vec![make(ctx, false), make(ctx, false)] } else { vec![make(ctx, true), make(ctx, false)] };
            let fill = move |pre: &[Passkey]| { let mut m = RefStore::new(d); for p in pre { m.items.push(p.clone()); } m };
            if wrapper == 0 { scenario(ctx, kname, &|pre: &[Passkey]| Arc::new(tokio::sync::Mutex::new(fill(pre))), &[], true, &ops, 400); }
            else { scenario(ctx, kname, &|pre: &[Passkey]| Arc::new(tokio::sync::RwLock::new(fill(pre))), &[], true, &ops, 400); }
            ctx.stat("c19.scenarios.capabilities");
        }
    }
    // ---- assertions whose counter write-back the store refuses, and silent assertions (no presence asked, none reported)
    for wrapper in 0..2 {
        let id = vec![0xC1, 0x9B, 1, 2, 3, 4, 5, 6, 7, 8, 9, 10, 11, 12, 13, 14];
        let pk = make_passkey(ctx, id.clone(), rp, Some(vec![7]), Some(5), None);
        let get = |ctx: &mut Ctx, up: bool| { let mut g = simple_get(ctx, rp); g.allow = Some(vec![id.clone()]); g.up = up; COp::Get(g) };
        let fill = |pre: &[Passkey]| { let mut m = MemoryStore::new(); for p in pre { m.insert(p.credential_id.clone().into(), p.clone()); } m };
        let pre = vec![pk.clone()];
        let silent = UvState { answer: Ok((false, true)), ..UvState::ok() };
        for (label, ops, uv, faults) in [
            ("update-refused", vec![get(ctx, true), get(ctx, true)], UvState::ok(), vec![vec![None, Some(0x30u8)], vec![]]),
            ("update-refused-3", vec![get(ctx, true), get(ctx, true), get(ctx, true)], UvState::ok(), vec![vec![], vec![None, Some(0x7F)], vec![]]),
            ("silent", vec![get(ctx, false), get(ctx, false)], silent, vec![]),
            ("silent-3", vec![get(ctx, false), get(ctx, false), get(ctx, false)], silent, vec![])] {
            if wrapper == 0 { scenario_spec(ctx, "map", label, &|pre: &[Passkey]| Arc::new(tokio::sync::Mutex::new(fill(pre))), &pre, &ops, uv, &faults); }
            else { scenario_spec(ctx, "map", label, &|pre: &[Passkey]| Arc::new(tokio::sync::RwLock::new(fill(pre))), &pre, &ops, uv, &faults); }
        }
    }
    // ---- U2F registrations beside each other and beside CTAP ceremonies on a shared store, with a save the store refuses
    for wrapper in 0..2 {
        let id = vec![0xC1, 0x9C, 1, 2, 3, 4, 5, 6, 7, 8, 9, 10, 11, 12, 13, 14];
        let pk = make_passkey(ctx, id.clone(), rp, Some(vec![7]), Some(5), None);
        let u2f = |ctx: &mut Ctx, n: usize| COp::U2f { app: ctx.rng.bytes(32), chal: ctx.rng.bytes(32), handle: ctx.rng.bytes(n) };
        let get = |ctx: &mut Ctx| { let mut g = simple_get(ctx, rp); g.allow = Some(vec![id.clone()]); COp::Get(g) };
        let make = |ctx: &mut Ctx| { let mut m = simple_make(ctx, rp); m.rk = false; COp::Make(m) };
        let fill = |pre: &[Passkey]| { let mut m = MemoryStore::new(); for p in pre { m.insert(p.credential_id.clone().into(), p.clone()); } m };
        let pre = vec![pk.clone()];
        for (label, ops, faults) in [
            ("u2f-u2f", vec![u2f(ctx, 16), u2f(ctx, 64)], vec![]),
            ("u2f-u2f-save-refused", vec![u2f(ctx, 16), u2f(ctx, 32)], vec![vec![], vec![Some(0x28u8)]]),
            ("u2f-u2f-first-save-refused", vec![u2f(ctx, 1), u2f(ctx, 255)], vec![vec![Some(0x7Fu8)], vec![]]),
            ("u2f-make", vec![u2f(ctx, 20), make(ctx)], vec![]),
            ("u2f-get-u2f", vec![u2f(ctx, 16), get(ctx), u2f(ctx, 48)], vec![vec![], vec![], vec![Some(0x28u8)]])] {
            if wrapper == 0 { scenario_spec(ctx, "map", label, &|pre: &[Passkey]| Arc::new(tokio::sync::Mutex::new(fill(pre))), &pre, &ops, UvState::ok(), &faults); }
            else { scenario_spec(ctx, "map", label, &|pre: &[Passkey]| Arc::new(tokio::sync::RwLock::new(fill(pre))), &pre, &ops, UvState::ok(), &faults); }
        }
    }
    // ---- a slow backend behind each wrapper: the lock is held across a suspension point
    {
        let id = vec![0xC1, 0x9A, 1, 2, 3, 4, 5, 6, 7, 8, 9, 10, 11, 12, 13, 14];
        let pk = make_passkey(ctx, id.clone(), rp, Some(vec![7]), Some(0), None);
        let get = |ctx: &mut Ctx, with_list: bool| { let mut g = simple_get(ctx, rp); if with_list { g.allow = Some(vec![id.clone()]); } COp::Get(g) };
        let make = |ctx: &mut Ctx, rk: bool| { let mut m = simple_make(ctx, rp); m.rk = rk; COp::Make(m) };
        let count = if ctx.thorough { 300 } else { 40 };
        let scen: Vec<Vec<COp>> = vec![vec![make(ctx, false), make(ctx, true)], vec![get(ctx, true), make(ctx, false)], vec![make(ctx, false), get(ctx, true), make(ctx, true)]];
        for ops in scen {
            let pre = vec![pk.clone()];
            let fill = |pre: &[Passkey]| { let mut m = MemoryStore::new(); for p in pre { m.insert(p.credential_id.clone().into(), p.clone()); } SlowStore(m) };
            scenario_slow(ctx, "arc-mutex", &|pre: &[Passkey]| Arc::new(tokio::sync::Mutex::new(fill(pre))), &pre, &ops, count);
            scenario_slow(ctx, "arc-rwlock", &|pre: &[Passkey]| Arc::new(tokio::sync::RwLock::new(fill(pre))), &pre, &ops, count);
        }
    }
    let cap3 = if ctx.thorough { 1700 } else { 150 };
    for wrapper in 0..2 {
        for start in [Some(0u32), Some(41), Some(u32::MAX - 1), None] {
            let id = vec![0xC1, 0x99, 1, 2, 3, 4, 5, 6, 7, 8, 9, 10, 11, 12, 13, 14];
            let pk = make_passkey(ctx, id.clone(), rp, Some(vec![7]), start, None);
            let get = |ctx: &mut Ctx| { let mut g = simple_get(ctx, rp); g.allow = Some(vec![id.clone()]); COp::Get(g) };
            let make = |ctx: &mut Ctx, rk: bool| { let mut m = simple_make(ctx, rp); m.rk = rk; COp::Make(m) };
            let scenarios: Vec<(Vec<COp>, usize)> = vec![
                (vec![get(ctx), get(ctx)], 10_000),                         // assert / assert on one credential
                (vec![get(ctx), make(ctx, false)], 10_000),                 // assert / register
                (vec![make(ctx, true), make(ctx, false)], 10_000),          // register / register
                (vec![{ let g = simple_get(ctx, rp); COp::Get(g) }, make(ctx, false)], 10_000),   // an assertion that names no credential / register
                (vec![get(ctx), get(ctx), get(ctx)], cap3),                 // three assertions
                (vec![get(ctx), make(ctx, false), get(ctx)], cap3),
            ];
            for (ops, cap) in scenarios {
                if start.is_none() && ops.len() == 3 { continue; }
                let pre = vec![pk.clone()];
                if wrapper == 0 {
                    scenario(ctx, "map", &|pre: &[Passkey]| { let mut m = MemoryStore::new(); for p in pre { m.insert(p.credential_id.clone().into(), p.clone()); } Arc::new(tokio::sync::Mutex::new(m)) }, &pre, true, &ops, cap);
                } else {
                    scenario(ctx, "map", &|pre: &[Passkey]| { let mut m = MemoryStore::new(); for p in pre { m.insert(p.credential_id.clone().into(), p.clone()); } Arc::new(tokio::sync::RwLock::new(m)) }, &pre, true, &ops, cap);
                }
                ctx.stat("c19.scenarios");
            }
        }
    }
}
