//! C18: the same requests as C02-C05 (successful and failing), all stores and user-validation behaviours, run
//! through `<Authenticator as Ctap2Api>::{get_info, make_credential, get_assertion}`.  Each case runs in a
//! child process with a time limit: a forwarding that never returns (recursion until the stack overflows)
//! kills the child, and the parent reports the operation it announced last as `res=crash`.
use crate::au::*;
use crate::util::Ctx;
use std::io::Read;
use std::process::{Command, Stdio};
use std::time::{Duration, Instant};

pub struct Case { pub w: World, pub steps: Vec<Step> }

fn info_step(uv: UvState) -> Step { let mut s = step(Op::Make(MakeOp { cdh: vec![], rp: String::new(), user: vec![], algs: vec![], exclude: None, unk: vec![], ext: None, rk: false, up: true, uv: false, pin: false })); s.op = Op::Info; s.uv = uv; s }

pub fn cases(ctx: &mut Ctx) -> Vec<Case> {
    let mut out = vec![];
    let rps = ["a.example.com", "b.example.org", "Login.Example.COM"];
    let kinds = [Kind::RefFull, Kind::Map, Kind::Slot, Kind::RefNonDisc, Kind::RefForced, Kind::MapArcMutex];
    let uvs = [UvState::ok(), UvState { answer: Ok((true, false)), ..UvState::ok() }, UvState { answer: Ok((false, true)), ..UvState::ok() },
        UvState { verification: Some(false), ..UvState::ok() }, UvState { verification: None, presence_enabled: false, answer: Ok((true, true)) }, UvState { answer: Err(0x27), ..UvState::ok() }];
    let n = if ctx.thorough { 400 } else { 60 };
    for i in 0..n {
        let kind = kinds[i % kinds.len()];
        let ncred = if matches!(kind, Kind::Slot) { ctx.rng.below(2) } else { ctx.rng.below(4) } as usize;
        let mut preload = vec![];
        for j in 0..ncred {
            let rp = *ctx.rng.pick(&rps);
            let ctr = if ctx.rng.bool() { Some(ctx.rng.below(100) as u32) } else { None };
            let hs = if ctx.rng.below(3) == 0 { Some((ctx.rng.bytes(32), Some(ctx.rng.bytes(32)))) } else { None };
            preload.push(make_passkey(ctx, vec![0xC1, 0x88, i as u8, j as u8, 1, 2, 3, 4], rp, Some(vec![j as u8]), ctr, hs));
        }
        let ids: Vec<Vec<u8>> = preload.iter().map(|p| p.credential_id.to_vec()).collect();
        let hm = *ctx.rng.pick(&[Hm::None, Hm::NoUv, Hm::UvOnlyMc]);
        let w = World { kind, counter_on: ctx.rng.bool(), id_len: *ctx.rng.pick(&[16u8, 32]), hm, preload };
        let mut steps = vec![info_step(*ctx.rng.pick(&uvs))];
        for _ in 0..ctx.rng.range(2, 5) {
            let rp = *ctx.rng.pick(&rps);
            let list: Option<Vec<Vec<u8>>> = match ctx.rng.below(5) {
                0 => None, 1 => Some(vec![]), 2 => Some(ids.clone()), 3 => Some(vec![ctx.rng.bytes(8)]),
                _ => if ids.is_empty() { None } else { Some(vec![ctx.rng.pick(&ids).clone()]) } };
            let mut s = if ctx.rng.below(3) == 0 {
                let mut m = simple_make(ctx, rp); m.exclude = list; m.rk = ctx.rng.bool(); m.uv = ctx.rng.bool(); m.up = ctx.rng.below(8) != 0; m.pin = ctx.rng.below(10) == 0;
                m.algs = ctx.rng.pick(&[vec![-7i64], vec![-257, -7], vec![-8]]).clone();
                if hm != Hm::None && ctx.rng.bool() { m.ext = Some((None, false, Some(PrfI { eval: Some(PrfV { first: [1u8; 32], second: None }), by_cred: None }))); }
                step(Op::Make(m))
            } else {
                let mut g = simple_get(ctx, rp); g.allow = list; g.uv = ctx.rng.bool(); g.up = ctx.rng.below(8) != 0; g.rk = ctx.rng.below(10) == 0; g.pin = ctx.rng.below(10) == 0;
                if hm != Hm::None && ctx.rng.bool() { g.ext = Some((false, Some(PrfI { eval: Some(PrfV { first: [2u8; 32], second: None }), by_cred: None }))); }
                step(Op::Get(g))
            };
            s.uv = *ctx.rng.pick(&uvs);
            if ctx.rng.below(5) == 0 { let c = *ctx.rng.pick(&[0x7Fu8, 0xF1, 0xE3, 0x41, 0x28, 0x01]); s.faults = if ctx.rng.bool() { vec![None, Some(c)] } else { vec![Some(c)] }; }
            steps.push(s);
        }
        steps.push(info_step(UvState::ok()));
        out.push(Case { w, steps });
    }
    out
}

/// child: run one case through the trait
pub fn run_one(ctx: &mut Ctx, idx: usize) {
    let all = cases(ctx);
    ctx.flush_each = true;
    VIA_TRAIT.store(true, std::sync::atomic::Ordering::Relaxed);
    ANNOUNCE.store(true, std::sync::atomic::Ordering::Relaxed);
    if let Some(c) = all.get(idx) {
        use crate::env::{DETAIL, DETAIL_KNOWN_IDS, DETAIL_ON};
        use std::sync::atomic::Ordering::Relaxed;
        *DETAIL_KNOWN_IDS.lock().unwrap() = c.w.preload.iter().map(|p| p.credential_id.to_vec()).collect();
        DETAIL_ON.store(true, Relaxed);
        run_case(ctx, "C18", &c.w, &c.steps);
        let via_trait: Vec<String> = std::mem::take(&mut *DETAIL.lock().unwrap());
        // the same case once more on identically prepared authenticators through the inherent methods: whatever the
        // stores and the user-validation method are handed, and every result, must coincide (random draws aside)
        VIA_TRAIT.store(false, Relaxed); ANNOUNCE.store(false, Relaxed); ctx.mute = true;
        run_case(ctx, "C18", &c.w, &c.steps);
        ctx.mute = false; DETAIL_ON.store(false, Relaxed);
        let direct: Vec<String> = std::mem::take(&mut *DETAIL.lock().unwrap());
        let obs = if via_trait == direct { "same".to_string() } else {
            let k = via_trait.iter().zip(direct.iter()).position(|(a, b)| a != b).unwrap_or(via_trait.len().min(direct.len()));
            format!("differs:{}", crate::util::hexf(format!("record {}: trait [{}] direct [{}]", k, via_trait.get(k).map(|s| s.as_str()).unwrap_or("-"), direct.get(k).map(|s| s.as_str()).unwrap_or("-")).as_bytes())) };
        ctx.stat(if obs == "same" { "c18.twin.same" } else { "c18.twin.differs" });
        ctx.line(&format!("au.twin {}", idx), &obs);
    }
}

/// parent: one child per case
pub fn gen(ctx: &mut Ctx, seed: u64) {
    let n = { let mut probe = Ctx::new(seed, ctx.thorough); cases(&mut probe).len() };
    let exe = std::env::current_exe().expect("own path");
    for idx in 0..n {
        let mut child = Command::new(&exe).args(["c18case", &idx.to_string(), "--tier", if ctx.thorough { "thorough" } else { "quick" }, "--seed", &seed.to_string()])
            .stdout(Stdio::piped()).stderr(Stdio::piped()).spawn().expect("spawn worker");
        let start = Instant::now();
        let mut timed_out = false;
        let status = loop {
            match child.try_wait() { Ok(Some(s)) => break Some(s), Ok(None) => {}, Err(_) => break None }
            if start.elapsed() > Duration::from_secs(20) { let _ = child.kill(); timed_out = true; break child.wait().ok(); }
            std::thread::sleep(Duration::from_millis(2));
        };
        let mut so = String::new(); let mut se = String::new();
        if let Some(mut o) = child.stdout.take() { let _ = o.read_to_string(&mut so); }
        if let Some(mut e) = child.stderr.take() { let _ = e.read_to_string(&mut se); }
        let ok = status.map(|s| s.success()).unwrap_or(false) && !timed_out;
        let mut ended = false;
        for l in so.lines() {
            if let Some((op, obs)) = l.split_once('\t') { if op == "au.end" { ended = true; } ctx.line(op, obs); }
        }
        if !ok || !ended {
            // the operation announced last never produced its line: it crashed the worker (or never returned)
            let last = se.lines().filter_map(|l| l.strip_prefix("ANNOUNCE ")).last().unwrap_or("au.info 1t:11").to_string();
            let how = if timed_out { "timeout" } else { "crash" };
            ctx.line(&last, &format!("res={} ev=- store=EMPTY", how));
            ctx.line("au.end", "");
            ctx.stat(&format!("c18.worker_{}", how));
        }
        ctx.stat("c18.cases");
    }
}
