//! C03: interleaved registrations and authentications over several RP IDs, users, allow lists, client-data
//! modes and user-verification requirements; every signature is checked by the Spec side.
use crate::au::*;
use crate::c02::{rand_cd, rand_challenge, sites};
use crate::cl::*;
use crate::util::Ctx;

pub fn gen(ctx: &mut Ctx) {
    let sites = sites();
    // corpus: register, authenticate without / with an allow list, unknown id only, empty list
    for kind in [Kind::RefFull, Kind::Map, Kind::Slot, Kind::RefFullEmptyOk] {
        let w = World { kind, counter_on: true, id_len: 16, hm: Hm::None, preload: vec![] };
        let r = simple_reg(ctx, "https://www.example.com", Some("example.com"));
        let a0 = simple_auth(ctx, "https://www.example.com", Some("example.com"));
        let mut a1 = simple_auth(ctx, "https://www.example.com", Some("example.com")); a1.allow_refs = vec![0];
        let mut a2 = simple_auth(ctx, "https://www.example.com", Some("example.com")); a2.allow = Some(vec![vec![9, 9, 9]]);
        let mut a3 = simple_auth(ctx, "https://www.example.com", Some("example.com")); a3.allow = Some(vec![]);
        let mut a4 = simple_auth(ctx, "https://www.example.com", Some("example.com")); a4.allow = Some(vec![vec![9, 9, 9]]); a4.allow_refs = vec![0];
        let a5 = simple_auth(ctx, "https://accounts.example.org", None);
        // descriptors of a credential type this library does not know, naming nothing that is held
        let mut a6 = simple_auth(ctx, "https://www.example.com", Some("example.com")); a6.allow = Some(vec![vec![8, 8, 8], vec![7, 7]]); a6.unk = vec![0, 1];
        let mut a7 = simple_auth(ctx, "https://www.example.com", Some("example.com")); a7.allow = Some(vec![vec![8, 8, 8]]); a7.allow_refs = vec![0]; a7.unk = vec![0];
        let before = simple_auth(ctx, "https://www.example.com", Some("example.com"));
        run_ccase(ctx, "C03", &w, &[cstep(COp::Auth(before)), cstep(COp::Reg(r)),
            cstep(COp::Auth(a0)), cstep(COp::Auth(a1)), cstep(COp::Auth(a2)), cstep(COp::Auth(a3)), cstep(COp::Auth(a4)), cstep(COp::Auth(a5)), cstep(COp::Auth(a6)), cstep(COp::Auth(a7))]);
        ctx.stat("c03.corpus");
    }
    // a credential registered at one site named in the allow list of a ceremony at another site
    for kind in [Kind::RefFull, Kind::Slot, Kind::Map, Kind::RefFullEmptyOk, Kind::SlotArcMutex, Kind::MapRwLock] {
        let w = World { kind, counter_on: true, id_len: 16, hm: Hm::None, preload: vec![] };
        let r = simple_reg(ctx, "https://www.example.com", Some("example.com"));
        let mut a1 = simple_auth(ctx, "https://accounts.example.org", None); a1.allow_refs = vec![0];
        let mut a2 = simple_auth(ctx, "https://accounts.example.org", None); a2.allow_refs = vec![0]; a2.allow = Some(vec![vec![9, 9]]);
        let mut a3 = simple_auth(ctx, "https://www.example.com", Some("example.com")); a3.allow_refs = vec![0];
        run_ccase(ctx, "C03", &w, &[cstep(COp::Reg(r)), cstep(COp::Auth(a1)), cstep(COp::Auth(a2)), cstep(COp::Auth(a3))]);
        ctx.stat("c03.corpus.credential_of_another_site_listed");
    }
    // stored keys whose private scalar was written without its leading zero octet still sign under their public key
    for kind in [Kind::RefFull, Kind::Map] {
        let id = vec![0xC3, 0, 0, 1];
        let pk = make_passkey_short_d(ctx, id.clone(), "example.com", Some(vec![5, 5]), Some(7));
        let w = World { kind, counter_on: true, id_len: 16, hm: Hm::None, preload: vec![pk] };
        let mut a = simple_auth(ctx, "https://www.example.com", Some("example.com")); a.allow = Some(vec![id.clone()]);
        let mut b = simple_auth(ctx, "https://www.example.com", Some("example.com")); b.allow = Some(vec![id.clone()]);
        b.cd = CdMode::Hash(ctx.rng.bytes(20));      // a caller-supplied hash that is not 32 bytes long
        run_ccase(ctx, "C03", &w, &[cstep(COp::Auth(a)), cstep(COp::Auth(b))]);
        ctx.stat("c03.corpus.short_private_scalar");
    }
    // imported credentials: stored COSE keys whose members come in another order (private scalar first, reversed)
    for k in 0..(if ctx.thorough { 60u8 } else { 12 }) {
        let kind = [Kind::RefFull, Kind::Map, Kind::Slot][k as usize % 3];
        let id = vec![0xC3, 1, k / 6, k % 6];
        let uh = ctx.rng.bytes_in(1, 8);
        let pk = make_passkey(ctx, id.clone(), "example.com", Some(uh), if k % 2 == 0 { Some(k as u32) } else { None }, None);
        let w = World { kind, counter_on: true, id_len: 16, hm: Hm::None, preload: vec![pk] };
        let mut a = simple_auth(ctx, "https://www.example.com", Some("example.com")); a.allow = Some(vec![id.clone()]);
        let mut b = simple_auth(ctx, "https://example.com:8443/", Some("example.com")); b.allow = Some(vec![ctx.rng.bytes(4), id.clone()]);
        run_ccase(ctx, "C03", &w, &[cstep(COp::Auth(a)), cstep(COp::Auth(b))]);
        ctx.stat("c03.corpus.imported_key_member_order");
    }
    let n = if ctx.thorough { 1200 } else { 120 };
    for i in 0..n {
        // the in-memory map ignores the RP (known finding of C05): it gets one site per case
        let kind = [Kind::RefFull, Kind::RefForced, Kind::Map, Kind::RefFull, Kind::MapArcMutex][i % 5];
        let one_site = matches!(kind, Kind::Map | Kind::MapArcMutex);
        let w = World { kind, counter_on: ctx.rng.bool(), id_len: *ctx.rng.pick(&[16u8, 32, 64]), hm: Hm::None, preload: vec![] };
        let nsites = if one_site { 1 } else { ctx.rng.range(1, 3) as usize };
        let first = ctx.rng.below(sites.len() as u64) as usize;
        let mut steps = vec![];
        let mut regs = 0usize;
        for _ in 0..ctx.rng.range(3, 10) {
            let s = &sites[(first + ctx.rng.below(nsites as u64) as usize) % sites.len()];
            if regs == 0 || ctx.rng.below(3) == 0 {
                let mut r = simple_reg(ctx, "https://unused.example", None);
                r.org = s.org.clone(); r.rp = s.rp.map(|x| x.to_string()); r.allow_localhost = s.allow_localhost;
                r.user = ctx.rng.bytes_in(1, 32);
                r.sel = Some(Sel { rk: *ctx.rng.pick(&[None, Some(Rk::Discouraged), Some(Rk::Required), Some(Rk::Preferred)]), rrk: false, uv: UvR::Preferred });
                steps.push(cstep(COp::Reg(r)));
                regs += 1;
            } else {
                let mut a = simple_auth(ctx, "https://unused.example", None);
                a.org = s.org.clone(); a.rp = s.rp.map(|x| x.to_string()); a.allow_localhost = s.allow_localhost;
                a.challenge = rand_challenge(ctx);
                a.cd = rand_cd(ctx);
                a.uv = *ctx.rng.pick(&[UvR::Preferred, UvR::Required, UvR::Discouraged]);
                match ctx.rng.below(6) {
                    0 => {}                                                   // absent
                    1 => { a.allow = Some(vec![]); }                          // empty
                    2 => { a.allow_refs = vec![ctx.rng.below(8) as usize]; }  // one registered id (maybe of another RP)
                    3 => { a.allow_refs = (0..ctx.rng.range(1, 3)).map(|_| ctx.rng.below(8) as usize).collect(); a.allow = Some(vec![ctx.rng.bytes(16)]); } // unknown + known
                    4 => { a.allow = Some(vec![ctx.rng.bytes(16), ctx.rng.bytes(5)]); if ctx.rng.bool() { a.unk = vec![0, 1]; } } // unknown only, half of them of an unknown credential type
                    _ => { a.allow_refs = (0..regs).collect(); }               // all
                }
                if one_site && a.allow.is_none() && a.allow_refs.is_empty() && ctx.rng.bool() { a.allow_refs = vec![0]; }
                let mut st = cstep(COp::Auth(a));
                if ctx.rng.below(10) == 0 { st.uv = UvState { answer: Ok((true, false)), ..UvState::ok() }; }
                steps.push(st);
            }
        }
        run_ccase(ctx, "C03", &w, &steps);
    }
}
