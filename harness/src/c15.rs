//! C15: arbitrary and mutated inputs to every public decoder, each decoded in a worker process with an
//! address-space limit and a time limit; the worker reports the outcome, the largest single allocation
//! request and the time per input.  A worker that dies (panic = abort is not used: panics are caught and
//! reported; an allocation failure, a stack overflow or a kill by the time limit ends the worker) is reported
//! by the parent as `res=crash` / `res=timeout` for the input it was given.
use crate::util::{guarded, hexf, Ctx};
use passkey_types::ctap2::{get_assertion, get_info, make_credential, AuthenticatorData};
use passkey_types::webauthn;
use std::io::{BufRead, BufReader, Write};
use std::process::{Child, Command, Stdio};
use std::sync::mpsc::{channel, Receiver};
use std::time::{Duration, Instant};

pub const DECODERS: [&str; 18] = ["cbor.makeCredentialRequest", "cbor.makeCredentialResponse", "cbor.getAssertionRequest", "cbor.getAssertionResponse",
    "cbor.getInfoResponse", "authData", "json.creationOptions", "json.requestOptions", "json.createdCredential", "json.authenticatedCredential",
    "json.clientData", "base64", "u2f.request", "hid.packets", "coseKeyDer", "fingerprint", "rpId", "psl"];

fn cbor<T: serde::de::DeserializeOwned>(b: &[u8]) -> bool { ciborium::de::from_reader::<T, _>(b).is_ok() }
fn json<T: serde::de::DeserializeOwned>(b: &[u8]) -> bool { serde_json::from_slice::<T>(b).is_ok() }

/// decode one input; true = a value, false = an error
pub fn decode(name: &str, input: &[u8]) -> bool {
    match name {
        "cbor.makeCredentialRequest" => cbor::<make_credential::Request>(input),
        "cbor.makeCredentialResponse" => cbor::<make_credential::Response>(input),
        "cbor.getAssertionRequest" => cbor::<get_assertion::Request>(input),
        "cbor.getAssertionResponse" => cbor::<get_assertion::Response>(input),
        "cbor.getInfoResponse" => cbor::<get_info::Response>(input),
        "authData" => AuthenticatorData::from_slice(input).is_ok(),
        "json.creationOptions" => json::<webauthn::CredentialCreationOptions>(input),
        "json.requestOptions" => json::<webauthn::CredentialRequestOptions>(input),
        "json.createdCredential" => json::<webauthn::CreatedPublicKeyCredential>(input),
        "json.authenticatedCredential" => json::<webauthn::AuthenticatedPublicKeyCredential>(input),
        "json.clientData" => json::<webauthn::CollectedClientData>(input),
        "base64" => match std::str::from_utf8(input) { Ok(s) => passkey_types::Bytes::try_from(s).is_ok(), Err(_) => false },
        "u2f.request" => passkey_types::u2f::Request::try_from(input).is_ok(),
        "hid.packets" => {
            // the input is a sequence of packets: one length byte (0 = 64), then that many bytes, repeated
            let mut h = passkey_transports::hid::ChannelHandler::default();
            let mut i = 0; let mut any = false;
            while i < input.len() { let n = if input[i] == 0 { 64 } else { input[i] as usize }; let end = (i + 1 + n).min(input.len());
                if h.handle_packet(&input[i + 1..end]).is_some() { any = true; } i = end; }
            any
        }
        "coseKeyDer" => { use coset::CborSerializable; match coset::CoseKey::from_slice(input) { Ok(k) => passkey_authenticator::public_key_der_from_cose_key(&k).is_ok(), Err(_) => false } }
        "fingerprint" => match std::str::from_utf8(input) { Ok(s) => passkey_client::valid_fingerprint(s).is_ok(), Err(_) => false },
        "rpId" => match std::str::from_utf8(input) { Ok(s) => {
            // the text is "origin-url SPACE rp-id"
            let (o, r) = s.split_once(' ').unwrap_or((s, ""));
            match url::Url::parse(o) { Ok(u) => passkey_client::RpIdVerifier::new(public_suffix::DEFAULT_PROVIDER).assert_domain(&passkey_client::Origin::Web(std::borrow::Cow::Borrowed(&u)), if r.is_empty() { None } else { Some(r) }).is_ok(), Err(_) => false } }
            Err(_) => false },
        "psl" => match std::str::from_utf8(input) { Ok(s) => { use public_suffix::EffectiveTLDProvider; public_suffix::DEFAULT_PROVIDER.effective_tld_plus_one(s).is_ok() } Err(_) => false },
        _ => false,
    }
}

/// worker: one hex input per line on stdin, one result line per input on stdout
pub fn worker(name: &str) {
    let stdin = std::io::stdin();
    let mut out = std::io::stdout();
    for line in stdin.lock().lines() {
        let Ok(line) = line else { break };
        let input = if line == "-" { vec![] } else { (0..line.len() / 2).map(|i| u8::from_str_radix(&line[2 * i..2 * i + 2], 16).unwrap_or(0)).collect::<Vec<u8>>() };
        use std::sync::atomic::Ordering::Relaxed;
        crate::ALLOC_MAX.store(0, Relaxed);
        let base = crate::ALLOC_LIVE.load(Relaxed);
        crate::ALLOC_PEAK.store(base, Relaxed);
        let t = Instant::now();
        // on a thread with a 1 MiB stack (half of a default thread stack): recursion per input element shows
        let nm = name.to_string();
        let input2 = input.clone();
        let r = std::thread::Builder::new().stack_size(1 << 20).spawn(move || guarded(|| decode(&nm, &input))).ok().and_then(|h| h.join().ok()).flatten();
        let mut us = t.elapsed().as_micros();
        // a slow decode on a loaded machine may be a scheduling hiccup: decode again (twice at most) and keep the
        // shortest time - a decoder whose cost is out of proportion is slow every time
        let mut again = 0;
        while us > 200_000 && us < 3_000_000 && again < 2 {
            let (nm2, inp) = (name.to_string(), input2.clone());
            let t2 = Instant::now();
            let _ = std::thread::Builder::new().stack_size(1 << 20).spawn(move || guarded(|| decode(&nm2, &inp))).ok().and_then(|h| h.join().ok());
            us = us.min(t2.elapsed().as_micros());
            again += 1;
        }
        // the larger of the largest single request and the peak of the bytes held at one time
        let big = crate::ALLOC_MAX.load(Relaxed).max(crate::ALLOC_PEAK.load(Relaxed).saturating_sub(base + (1 << 20)));
        let _ = writeln!(out, "res={} alloc={} us={}", match r { None => "panic", Some(true) => "ok", Some(false) => "err" }, big, us);
        let _ = out.flush();
    }
}

struct Worker { child: Child, rx: Receiver<String> }
fn spawn(name: &str) -> Worker {
    let exe = std::env::current_exe().expect("own path");
    // 3 GiB of address space: a request for a declared 2^40 bytes fails instead of being served lazily by the kernel
    let mut child = Command::new("sh").arg("-c").arg("ulimit -v 3145728; exec \"$0\" \"$@\"").arg(&exe).args(["c15worker", name])
        .stdin(Stdio::piped()).stdout(Stdio::piped()).stderr(Stdio::null()).spawn().expect("spawn worker");
    let so = child.stdout.take().unwrap();
    let (tx, rx) = channel();
    std::thread::spawn(move || { for l in BufReader::new(so).lines() { match l { Ok(l) => { if tx.send(l).is_err() { break; } } Err(_) => break } } });
    Worker { child, rx }
}

fn run_inputs(ctx: &mut Ctx, name: &str, inputs: &[Vec<u8>]) {
    ctx.line("dec.reset", "");
    let mut w = spawn(name);
    for inp in inputs {
        let hexs = hexf(inp);
        let sent = w.child.stdin.as_mut().map(|s| writeln!(s, "{}", hexs).and_then(|_| s.flush()).is_ok()).unwrap_or(false);
        let got = if sent { w.rx.recv_timeout(Duration::from_secs(6)).ok() } else { None };
        let obs = match got {
            Some(l) => l,
            None => {
                // dead or too slow: find out which, then replace the worker
                let exited = matches!(w.child.try_wait(), Ok(Some(_)));
                let _ = w.child.kill(); let _ = w.child.wait();
                w = spawn(name);
                format!("res={} alloc=0 us=0", if exited || !sent { "crash" } else { "timeout" })
            }
        };
        ctx.stat(&format!("c15.{}.{}", name, obs.split(' ').next().unwrap_or("?")));
        ctx.line(&format!("dec.run {} {}", name, hexs), &obs);
    }
    let _ = w.child.kill(); let _ = w.child.wait();
    ctx.line("dec.end", "");
}

// ---------------------------------------------------------------- inputs

fn ser<T: serde::Serialize>(v: &T) -> Vec<u8> { let mut b = vec![]; ciborium::ser::into_writer(v, &mut b).unwrap(); b }

/// a string or byte-string member given another length (the encoding stays well-formed: what a decoder with a
/// fixed-size field behind it must refuse, not index into)
fn resize_cbor(v: &mut ciborium::value::Value, target: &mut i64, newlen: usize) -> bool {
    use ciborium::value::Value as V;
    match v {
        V::Bytes(b) => { if *target == 0 { b.resize(newlen, 0x5a); *target -= 1; return true; } *target -= 1; false }
        V::Text(t) => { if *target == 0 { let mut c: Vec<char> = t.chars().collect(); c.resize(newlen, 'a'); *t = c.into_iter().collect(); *target -= 1; return true; } *target -= 1; false }
        V::Array(xs) => { for x in xs.iter_mut() { if resize_cbor(x, target, newlen) { return true; } } false }
        V::Map(kvs) => { for (k, x) in kvs.iter_mut() { if resize_cbor(k, target, newlen) || resize_cbor(x, target, newlen) { return true; } } false }
        V::Tag(_, x) => resize_cbor(x, target, newlen),
        _ => false,
    }
}
fn resize_json(v: &mut serde_json::Value, target: &mut i64, newlen: usize) -> bool {
    use serde_json::Value as V;
    match v {
        V::String(t) => { if *target == 0 { let mut c: Vec<char> = t.chars().collect(); c.resize(newlen, 'A'); *t = c.into_iter().collect(); *target -= 1; return true; } *target -= 1; false }
        V::Array(xs) => { for x in xs.iter_mut() { if resize_json(x, target, newlen) { return true; } } false }
        V::Object(m) => { for (_, x) in m.iter_mut() { if resize_json(x, target, newlen) { return true; } } false }
        _ => false,
    }
}
fn resized(ctx: &mut Ctx, base: &[u8], text: bool) -> Vec<u8> {
    let newlen = *ctx.rng.pick(&[0usize, 1, 2, 3, 15, 16, 17, 31, 32, 33, 63, 64, 65, 66]);
    let mut target = ctx.rng.below(12) as i64;
    if text {
        match serde_json::from_slice::<serde_json::Value>(base) { Ok(mut v) => { let mut t0 = target; if !resize_json(&mut v, &mut t0, newlen) { target = 0; let _ = resize_json(&mut v, &mut target, newlen); } serde_json::to_vec(&v).unwrap_or_default() } Err(_) => base.to_vec() }
    } else {
        match ciborium::de::from_reader::<ciborium::value::Value, _>(base) { Ok(mut v) => { let mut t0 = target; if !resize_cbor(&mut v, &mut t0, newlen) { target = 0; let _ = resize_cbor(&mut v, &mut target, newlen); } ser(&v) } Err(_) => base.to_vec() }
    }
}

fn mutate(ctx: &mut Ctx, valid: &[Vec<u8>], n: usize, text: bool) -> Vec<Vec<u8>> {
    let huge: [&[u8]; 8] = [&[0x9b, 0, 0, 1, 0, 0, 0, 0, 0], &[0x5b, 0, 0, 1, 0, 0, 0, 0, 0], &[0x7b, 0, 0, 1, 0, 0, 0, 0, 0], &[0xbb, 0, 0, 1, 0, 0, 0, 0, 0],
        &[0x9a, 0x40, 0, 0, 0], &[0x5a, 0x7f, 0xff, 0xff, 0xff], &[0xba, 0x40, 0, 0, 0], &[0x9b, 0xff, 0xff, 0xff, 0xff, 0xff, 0xff, 0xff, 0xff]];
    let mut out: Vec<Vec<u8>> = valid.to_vec();
    for _ in 0..n {
        let base = ctx.rng.pick(valid).clone();
        let m = match ctx.rng.below(11) {
            0 => { let k = ctx.rng.below(base.len() as u64 + 1) as usize; base[..k].to_vec() }                                  // truncation
            1 => { let mut b = base.clone(); b.extend(ctx.rng.bytes_in(1, 40)); b }                                                // extension
            2 => { let mut b = base.clone(); if !b.is_empty() { for _ in 0..ctx.rng.range(1, 4) { let i = ctx.rng.below(b.len() as u64) as usize; b[i] ^= 1 << ctx.rng.below(8); } } b }   // bit flips
            3 => { let mut b = base.clone(); if !b.is_empty() { let i = ctx.rng.below(b.len() as u64) as usize; let h = *ctx.rng.pick(&huge); b.splice(i..(i + 1).min(b.len()), h.iter().copied()); } b }     // a length field rewritten to a huge declared length
            4 => { let mut b = base.clone(); if !b.is_empty() { let i = ctx.rng.below(b.len() as u64) as usize; let h = *ctx.rng.pick(&huge); b.truncate(i); b.extend_from_slice(h); } b }    // ... and the input ends there
            5 => { let depth = *ctx.rng.pick(&[200usize, 5000, 100_000]); if text { let mut b = vec![b'['; depth]; b.extend(vec![b']'; depth]); b } else { let mut b = vec![0x81u8; depth]; b.push(0); b } }  // deep nesting
            6 => { let mut b = base.clone(); if !b.is_empty() { let i = ctx.rng.below(b.len() as u64) as usize; let depth = 3000; let nest: Vec<u8> = if text { vec![b'{'; 1].into_iter().chain(b"\"a\":".iter().copied()).cycle().take(5 * depth).collect() } else { vec![0x81u8; depth] }; b.splice(i..i, nest); } b }
            7 => if text && ctx.rng.bool() {
                    // a multi-byte character spliced in at a random character boundary
                    match String::from_utf8(base.clone()) { Ok(st) => { let chars: Vec<char> = st.chars().collect(); let i = ctx.rng.below(chars.len() as u64 + 1) as usize;
                        let mut o: String = chars[..i].iter().collect(); o.push(*ctx.rng.pick(&['\u{e9}', '\u{20ac}', '\u{1f600}', '\u{7f}', '\u{0}'])); o.extend(chars[(i + ctx.rng.below(2) as usize).min(chars.len())..].iter()); o.into_bytes() }
                        Err(_) => ctx.rng.bytes_in(0, 80) }
                } else { ctx.rng.bytes_in(0, 80) },                                                                              // arbitrary bytes
            8 | 9 => resized(ctx, &base, text),
            _ => { let mut b = base.clone(); if b.len() > 2 { let i = ctx.rng.below(b.len() as u64 - 1) as usize; b.swap(i, i + 1); b.remove(i); } b }
        };
        out.push(m);
    }
    out
}

fn json_valid(ctx: &mut Ctx, what: &str) -> Vec<u8> {
    let b64 = |ctx: &mut Ctx, n: usize| passkey_types::encoding::base64url(&ctx.rng.bytes(n));
    match what {
        "creationOptions" => format!(r#"{{"publicKey":{{"rp":{{"id":"example.com","name":"x"}},"user":{{"id":"{}","name":"n","displayName":"d"}},"challenge":"{}","pubKeyCredParams":[{{"type":"public-key","alg":-7}},{{"type":"public-key","alg":"-257"}}],"timeout":{},"excludeCredentials":[{{"type":"public-key","id":"{}","transports":["usb","new"]}}],"authenticatorSelection":{{"residentKey":"preferred","userVerification":"required"}},"attestation":"none","extensions":{{"credProps":true,"prf":{{"eval":{{"first":"{}"}}}}}}}}}}"#,
            b64(ctx, 8), b64(ctx, 32), ctx.rng.below(100000), b64(ctx, 16), b64(ctx, 12)).into_bytes(),
        "requestOptions" => format!(r#"{{"publicKey":{{"challenge":[{}],"timeout":"{}","rpId":"example.com","allowCredentials":[{{"type":"public-key","id":"{}"}}],"userVerification":"preferred","extensions":{{"prf":{{"evalByCredential":{{"{}":{{"first":"{}"}}}}}}}}}}}}"#,
            (0..16).map(|_| ctx.rng.below(256).to_string()).collect::<Vec<_>>().join(","), ctx.rng.below(100000), b64(ctx, 16), b64(ctx, 16), b64(ctx, 8)).into_bytes(),
        "createdCredential" => format!(r#"{{"id":"{0}","rawId":"{0}","type":"public-key","response":{{"clientDataJSON":"{1}","authenticatorData":"{2}","publicKey":"{3}","publicKeyAlgorithm":-7,"attestationObject":"{4}","transports":["internal"]}},"authenticatorAttachment":"platform","clientExtensionResults":{{"credProps":{{"rk":true}}}}}}"#,
            b64(ctx, 16), b64(ctx, 60), b64(ctx, 37), b64(ctx, 91), b64(ctx, 120)).into_bytes(),
        "authenticatedCredential" => format!(r#"{{"id":"{0}","rawId":"{0}","type":"public-key","response":{{"clientDataJSON":"{1}","authenticatorData":"{2}","signature":"{3}","userHandle":"{4}"}},"clientExtensionResults":{{}}}}"#,
            b64(ctx, 16), b64(ctx, 60), b64(ctx, 37), b64(ctx, 70), b64(ctx, 8)).into_bytes(),
        _ => format!(r#"{{"type":"webauthn.get","challenge":"{}","origin":"https://example.com","crossOrigin":false,"extra":{{"a":[1,2,{{"b":null}}]}},"zz":"{}"}}"#, b64(ctx, 32), b64(ctx, 3)).into_bytes(),
    }
}

pub fn gen(ctx: &mut Ctx) {
    let n = if ctx.thorough { 1500 } else { 150 };
    // ---- CBOR messages
    for (dec, schema) in [("cbor.makeCredentialRequest", "makeCredentialRequest"), ("cbor.makeCredentialResponse", "makeCredentialResponse"),
        ("cbor.getAssertionRequest", "getAssertionRequest"), ("cbor.getAssertionResponse", "getAssertionResponse"), ("cbor.getInfoResponse", "getInfoResponse")] {
        let valid: Vec<Vec<u8>> = (0..8).map(|_| crate::c13::message_pub(ctx, schema)).collect();
        let mut inputs = mutate(ctx, &valid, n, false);
        // every string member of two valid messages at other lengths (fixed-size fields behind them: AAGUID, hashes)
        for base in valid.iter().take(2) {
            if let Ok(v) = ciborium::de::from_reader::<ciborium::value::Value, _>(base.as_slice()) {
                for target in 0..12i64 { for newlen in [0usize, 1, 15, 17, 33] {
                    let (mut w, mut t) = (v.clone(), target);
                    if resize_cbor(&mut w, &mut t, newlen) { inputs.push(ser(&w)); }
                } }
            }
        }
        // known killers: a declared 2^40-element array in a binary member; a truncated list of 2^30 declared elements
        inputs.push(vec![0xa1, 0x01, 0x9b, 0, 0, 1, 0, 0, 0, 0, 0]);
        inputs.push(vec![0xa1, 0x02, 0x9b, 0, 0, 1, 0, 0, 0, 0, 0]);
        inputs.push(vec![0xa2, 0x01, 0x81, 0x68, b'F', b'I', b'D', b'O', b'_', b'2', b'_', b'0', 0x09, 0x9a, 0x40, 0, 0, 0]);
        inputs.push(vec![0xa3, 0x01, 0x81, 0x68, b'F', b'I', b'D', b'O', b'_', b'2', b'_', b'0', 0x03, 0x50, 0, 0, 0, 0, 0, 0, 0, 0, 0, 0, 0, 0, 0, 0, 0, 0, 0x09, 0x9a, 0x40, 0, 0, 0]);
        run_inputs(ctx, dec, &inputs);
    }
    // ---- authenticator data
    { let valid: Vec<Vec<u8>> = (0..8).map(|_| crate::c13::auth_data_pub(ctx).to_vec()).collect();
      let inputs = mutate(ctx, &valid, n, false); run_inputs(ctx, "authData", &inputs); }
    // ---- WebAuthn JSON
    for (dec, what) in [("json.creationOptions", "creationOptions"), ("json.requestOptions", "requestOptions"), ("json.createdCredential", "createdCredential"),
        ("json.authenticatedCredential", "authenticatedCredential"), ("json.clientData", "clientData")] {
        let valid: Vec<Vec<u8>> = (0..6).map(|_| json_valid(ctx, what)).collect();
        let inputs = mutate(ctx, &valid, n, true); run_inputs(ctx, dec, &inputs);
    }
    // ---- text decoders
    { let mut valid: Vec<Vec<u8>> = (0..6).map(|_| { let k = ctx.rng.range(0, 90) as usize; passkey_types::encoding::base64url(&ctx.rng.bytes(k)).into_bytes() }).collect();
      valid.push(passkey_types::encoding::base64(&ctx.rng.bytes(50)).into_bytes()); valid.push(vec![b'A'; 200_000]);
      let inputs = mutate(ctx, &valid, n, true); run_inputs(ctx, "base64", &inputs); }
    { let fp = "B3:5B:68:D5:CE:84:50:55:7C:6A:55:FD:64:B5:1F:EA:C1:10:CB:36:D6:A3:52:1C:59:48:DB:3A:38:0A:34:A9";
      let valid = vec![fp.as_bytes().to_vec(), fp.to_lowercase().into_bytes(), fp[..50].as_bytes().to_vec(), format!("{}:{}", fp, fp).into_bytes(), vec![b':'; 100_000], "AA:".repeat(50_000).into_bytes()];
      let mut inputs = mutate(ctx, &valid, n, true);
      // a multi-byte character at each of the first offsets (inside a hex pair, at a separator, after one)
      for k in 0..9usize { for ch in ['\u{e9}', '\u{20ac}', '\u{1f600}'] { let mut t: String = fp.chars().take(k).collect(); t.push(ch); t.extend(fp.chars().skip(k + 1)); inputs.push(t.into_bytes()); } }
      for t in ["B\u{e9}", "B3:5\u{20ac}", "\u{e9}", "B3:\u{1f600}"] { inputs.push(t.as_bytes().to_vec()); }
      run_inputs(ctx, "fingerprint", &inputs); }
    { let valid: Vec<Vec<u8>> = ["https://www.example.com example.com", "https://example.com ", "https://b\u{fc}cher.example b\u{fc}cher.example", "https://a.b.c.d.example.co.uk example.co.uk",
        "http://localhost:8080 localhost", "https://example.com .", "https://example.com ..com", "https://xn--55qx5d.cn xn--55qx5d.cn"].iter().map(|s| s.as_bytes().to_vec()).collect();
      let mut inputs = mutate(ctx, &valid, n, true);
      inputs.push(format!("https://{}example.com {}example.com", "a.".repeat(20_000), "a.".repeat(20_000)).into_bytes());
      inputs.push(format!("https://{}example.com example.com", "a.".repeat(100_000)).into_bytes());
      inputs.push(format!("https://{}example.com other.org", "a.".repeat(100_000)).into_bytes());
      inputs.push(format!("https://example.com {}example.com", "a.".repeat(100_000)).into_bytes());
      run_inputs(ctx, "rpId", &inputs); }
    { let valid: Vec<Vec<u8>> = ["www.example.com", "example.co.uk", "a.b.kobe.jp", "xn--55qx5d.cn", "", ".", "..", "com", "\u{4e2d}\u{6587}.\u{4e2d}\u{56fd}"].iter().map(|s| s.as_bytes().to_vec()).collect();
      let mut inputs = mutate(ctx, &valid, n, true);
      inputs.push("a.".repeat(50_000).into_bytes()); inputs.push(vec![b'.'; 100_000]); inputs.push(vec![b'a'; 300_000]);
      run_inputs(ctx, "psl", &inputs); }
    // ---- U2F raw requests
    { let mut valid = vec![];
      for _ in 0..4 { let d = ctx.rng.bytes(64); valid.push(crate::c17::frame(1, 0, &d, &[0, 0])); }
      for _ in 0..4 { let hl = ctx.rng.below(200) as usize; let mut d = ctx.rng.bytes(64); d.push(hl as u8); d.extend(ctx.rng.bytes(hl)); let p1 = *ctx.rng.pick(&[3u8, 7, 8]); valid.push(crate::c17::frame(2, p1, &d, &[])); }
      valid.push(crate::c17::frame(3, 0, &[], &[]));
      let mut inputs = mutate(ctx, &valid, 3 * n, false);
      for l in 0..12 { inputs.push(vec![0u8; l]); inputs.push(vec![0, 2, 0, 0, 0, 0, 0xff, 0xff][..l.min(8)].to_vec()); }
      for p1 in 0..=255u8 { let d = ctx.rng.bytes(66); inputs.push(crate::c17::frame(2, p1, &d, &[])); }
      run_inputs(ctx, "u2f.request", &inputs); }
    // ---- CTAPHID packet sequences (length-prefixed packets of any length in any order)
    { let mut valid = vec![];
      for _ in 0..8 { let ch = ctx.rng.bytes(4); let len = *ctx.rng.pick(&[0usize, 1, 57, 58, 116, 117, 1000, 7609]); let data = ctx.rng.bytes(len);
          let mut seq = vec![]; let mut first = ch.clone(); first.push(0x80 | 0x10); first.push((len >> 8) as u8); first.push(len as u8); first.extend(data.iter().take(57)); first.resize(64, 0);
          seq.push(0u8); seq.extend(first); let mut off = 57; let mut k = 0u8;
          while off < len { let mut p = ch.clone(); p.push(k); p.extend(data.iter().skip(off).take(59)); p.resize(64, 0); seq.push(0u8); seq.extend(p); off += 59; k = k.wrapping_add(1); }
          valid.push(seq); }
      let mut inputs = mutate(ctx, &valid, 2 * n, false);
      for l in 1..12u8 { let mut v = vec![l]; v.extend(vec![0x83u8; l as usize]); inputs.push(v); }
      inputs.push(vec![7, 1, 2, 3, 4, 0x83, 0, 5]);
      // many minimal init packets, each on its own channel, each declaring the largest payload and carrying none of it
      for count in [200usize, 2000] { let mut v = vec![]; for c in 0..count { v.push(7u8); v.extend([(c >> 8) as u8, c as u8, 0x55, 0xaa, 0x90, 0xff, 0xff]); } inputs.push(v); }
      run_inputs(ctx, "hid.packets", &inputs); }
    // ---- COSE keys handed to the public-key converter
    { use coset::{CborSerializable, CoseKeyBuilder, iana};
      let mut valid = vec![];
      // every split of 64 bytes between the coordinates near the ends and the middle, and lengths around 32 on either side
      for (lx, ly) in [(32usize, 32usize), (31, 32), (32, 31), (33, 32), (0, 0), (32, 64), (1, 1), (31, 33), (33, 31), (0, 64), (64, 0), (1, 63), (63, 1), (16, 48), (30, 34), (32, 33), (32, 0), (0, 32), (64, 64)] {
          valid.push(CoseKeyBuilder::new_ec2_pub_key(iana::EllipticCurve::P_256, ctx.rng.bytes(lx), ctx.rng.bytes(ly)).algorithm(iana::Algorithm::ES256).build().to_vec().unwrap()); }
      let inputs = mutate(ctx, &valid, n, false); run_inputs(ctx, "coseKeyDer", &inputs); }
}
