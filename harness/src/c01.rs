//! C01: RP ID verification against passkey-client (RpIdVerifier and, end to end, Client::{register, authenticate}).
use crate::env::*;
use crate::util::{guarded, hexf, Ctx};
use passkey_authenticator::{Authenticator, MemoryStore};
use passkey_client::{Client, DefaultClientData, Origin, RpIdVerifier, UnverifiedAssetLink, WebauthnError};
use passkey_types::{ctap2::Aaguid, webauthn};
use public_suffix::{EffectiveTLDProvider, Error as PslError, DEFAULT_PROVIDER};
use url::Url;

#[derive(Clone, Copy, PartialEq)]
pub enum Prov { Default, Never, Always }
impl Prov { fn name(self) -> &'static str { match self { Prov::Default => "default", Prov::Never => "never", Prov::Always => "always" } } }
pub struct P(pub Prov);
impl EffectiveTLDProvider for P {
    fn effective_tld_plus_one<'a>(&self, domain: &'a str) -> Result<&'a str, PslError> {
        match self.0 {
            Prov::Default => DEFAULT_PROVIDER.effective_tld_plus_one(domain),
            Prov::Never => Err(PslError::CannotDeriveETldPlus1),
            Prov::Always => Ok(domain),
        }
    }
}

const FP: &str = "B3:5B:68:D5:CE:84:50:55:7C:6A:55:FD:64:B5:1F:EA:C1:10:CB:36:D6:A3:52:1C:59:48:DB:3A:38:0A:34:A9";

pub fn werr(e: &WebauthnError) -> String {
    match e { WebauthnError::AuthenticatorError(b) => format!("err:AuthenticatorError({:02x})", b), other => format!("err:{:?}", other) }
}

enum Org { Web(Url), Android(String) }

fn fields(o: &Org, rp: Option<&str>, allow: bool, prov: Prov) -> String {
    let (kind, scheme, domain) = match o {
        Org::Web(u) => ("web", hexf(u.scheme().as_bytes()), u.domain().map(|d| hexf(d.as_bytes())).unwrap_or("NONE".into())),
        Org::Android(h) => ("android", "-".to_string(), hexf(h.as_bytes())),
    };
    let host: Option<String> = match o { Org::Web(u) => u.domain().map(|s| s.to_string()), Org::Android(h) => Some(h.clone()) };
    let effective: Option<String> = rp.map(|s| s.to_string()).or(host);
    let ascii = match effective { Some(e) => match idna::domain_to_ascii(&e) { Ok(a) => hexf(a.as_bytes()), Err(_) => "ERR".into() }, None => "ERR".into() };
    let urlf = match o { Org::Web(u) => hexf(u.as_str().as_bytes()), Org::Android(_) => "-".into() };
    format!("{} {} {} {} {} {} {} {}", kind, scheme, domain, rp.map(|r| hexf(r.as_bytes())).unwrap_or("NONE".into()), if allow { 1 } else { 0 }, prov.name(), ascii, urlf)
}

fn make_origin<'a>(o: &'a Org) -> Option<Origin<'a>> {
    match o {
        Org::Web(u) => Some(Origin::from(u)),
        Org::Android(h) => {
            let link = Url::parse("https://example.com/.well-known/assetlinks.json").unwrap();
            UnverifiedAssetLink::new("com.example.app", FP, h.as_str(), link).ok().map(Origin::Android)
        }
    }
}

fn check(ctx: &mut Ctx, o: &Org, rp: Option<&str>, allow: bool, prov: Prov) {
    let f = fields(o, rp, allow, prov);
    let obs = guarded(|| {
        let v = RpIdVerifier::new(P(prov)).allows_insecure_localhost(allow);
        // a verifier that has seen other ceremonies answers the same: before the pair under test it is asked about the
        // same host and RP ID over https (and once more about the pair itself)
        if let Org::Web(u) = o {
            if u.scheme() != "https" {
                let mut twin = u.clone();
                if twin.set_scheme("https").is_ok() { let _ = v.assert_domain(&Origin::from(&twin), rp); }
            }
        }
        if let Some(first) = make_origin(o) { let _ = v.assert_domain(&first, rp); }
        let origin = make_origin(o).unwrap();
        match v.assert_domain(&origin, rp) { Ok(d) => format!("ok {}", hexf(d.as_bytes())), Err(e) => werr(&e) }
    }).unwrap_or("panic".into());
    ctx.stat(if obs.starts_with("ok") { "rp.check.accepted" } else { "rp.check.rejected" });
    if obs.starts_with("err") { ctx.stat(&format!("rp.check.{}", &obs[4..])); }
    ctx.line(&format!("rp.check {}", f), &obs);
}

fn e2e(ctx: &mut Ctx, reg: bool, o: &Org, rp: Option<&str>, allow: bool, prov: Prov) {
    let f = fields(o, rp, allow, prov);
    let log = new_log();
    let obs = guarded(|| {
        let store = RecStore::new(MemoryStore::new(), log.clone());
        let auth = Authenticator::new(Aaguid::new_empty(), store, Uv::ok(log.clone()));
        let mut client = Client::new_with_custom_tld_provider(auth, P(prov)).allows_insecure_localhost(allow);
        let origin = make_origin(o).unwrap();
        let mut hash = "NONE".to_string();
        let res = if reg {
            let opts = webauthn::CredentialCreationOptions { public_key: webauthn::PublicKeyCredentialCreationOptions {
                rp: webauthn::PublicKeyCredentialRpEntity { id: rp.map(|s| s.to_string()), name: "rp".into() },
                user: webauthn::PublicKeyCredentialUserEntity { id: vec![1, 2, 3].into(), display_name: "u".into(), name: "u".into() },
                challenge: vec![9u8; 16].into(),
                pub_key_cred_params: vec![],
                timeout: None, exclude_credentials: None, authenticator_selection: None, hints: None,
                attestation: Default::default(), attestation_formats: None, extensions: None } };
            match block_on(client.register(origin, opts, DefaultClientData)) {
                Ok(c) => { hash = hexf(&c.response.authenticator_data[..32.min(c.response.authenticator_data.len())]); "ok".to_string() }
                Err(e) => werr(&e),
            }
        } else {
            let opts = webauthn::CredentialRequestOptions { public_key: webauthn::PublicKeyCredentialRequestOptions {
                challenge: vec![9u8; 16].into(), timeout: None, rp_id: rp.map(|s| s.to_string()), allow_credentials: None,
                user_verification: Default::default(), hints: None, attestation: Default::default(), attestation_formats: None, extensions: None } };
            match block_on(client.authenticate(origin, opts, DefaultClientData)) { Ok(_) => "ok".to_string(), Err(e) => werr(&e) }
        };
        (res, hash)
    });
    let l = log.lock().unwrap().clone();
    let find = l.iter().find(|s| s.starts_with("find:")).map(|s| s.split(':').nth(2).unwrap_or("?").to_string()).unwrap_or("NONE".into());
    let save = l.iter().find(|s| s.starts_with("save:")).map(|s| s.split(':').nth(2).unwrap_or("?").to_string()).unwrap_or("NONE".into());
    let uv = l.iter().filter(|s| s.starts_with("uv:")).count();
    let obs = match obs { None => "panic".to_string(), Some((res, hash)) => format!("res={} find={} save={} uv={} hash={}", res, find, save, uv, hash) };
    ctx.stat(if reg { "rp.e2e.register" } else { "rp.e2e.authenticate" });
    ctx.line(&format!("rp.e2e {} {}", if reg { "reg" } else { "auth" }, f), &obs);
}

fn rand_label(ctx: &mut Ctx) -> String {
    let n = ctx.rng.range(1, 7);
    (0..n).map(|_| (b'a' + ctx.rng.below(26) as u8) as char).collect()
}

pub fn gen(ctx: &mut Ctx) {
    // ---- corpus first: the pairs that were wrongly accepted before the repairs (fixed: C01)
    let corpus: Vec<(&str, Option<&str>)> = vec![
        ("https://evilexample.com", Some("example.com")),
        ("https://xn--55qx5d.cn", None),
        ("https://foo.xn--55qx5d.cn", Some("xn--55qx5d.cn")),
        ("https://example...com", Some("...com")),
        ("https://example.com", Some("com")),
        ("https://www.future.1password.com", Some("future.1password.com")),
        ("http://example.com", Some("example.com")),
        ("http://localhost:8080", Some("localhost")),
        ("http://evillocalhost:8080", Some("localhost")),
        ("https://example.com", Some("")),
        ("https://example.com.", None),
        ("https://a.example.com", Some(".example.com")),
        ("https://1.2.3.4", None),
        ("https://[::1]", None),
        ("https://co.uk", None),
        ("https://a.co.uk", Some("co.uk")),
        ("https://a.b.example.co.uk", Some("example.co.uk")),
        // the RP ID has more labels than the host (a parent site claiming a subdomain's RP ID)
        ("https://example.com", Some("login.example.com")),
        ("https://example.co.uk", Some("a.b.example.co.uk")),
        // names below "localhost" are not the literal host "localhost"
        ("http://app.localhost:3000", None),
        ("http://app.localhost:3000", Some("localhost")),
        ("http://app.localhost:3000", Some("app.localhost")),
        ("https://app.localhost", None),
        ("http://localhost.example.com", Some("localhost.example.com")),
        ("wss://www.example.com", Some("example.com")),
        ("https://www.example.com", Some("EXAMPLE.COM")),
        ("https://www.example.com", Some("Example.com")),
        ("https://www.example.com", Some("\u{ff45}xample.com")),
        ("https://www.example.com", Some("example\u{3002}com")),
        ("https://shop.xn--bcher-kva.example", Some("b\u{fc}cher.example")),
        ("https://shop.xn--bcher-kva.example", Some("xn--bcher-kva.example")),
        ("http://example.com", None),
        ("ftp://www.example.com", Some("example.com")),
        ("https://www.example.com./", None),
        ("https://www.example.com./", Some("example.com")),
        ("https://192.168.1.10", Some("1.10")),
    ];
    for (u, rp) in &corpus {
        let o = Org::Web(Url::parse(u).unwrap());
        for allow in [false, true] { for prov in [Prov::Default, Prov::Always, Prov::Never] { check(ctx, &o, *rp, allow, prov); } }
        e2e(ctx, true, &o, *rp, true, Prov::Default);
        e2e(ctx, false, &o, *rp, true, Prov::Default);
        ctx.stat("rp.corpus");
    }
    for (h, rp) in [("evilexample.com", Some("example.com")), ("xn--55qx5d.cn", None), ("公司.cn", None), ("XN--55QX5D.CN", None), ("example.com", None), ("a.example.com", Some("example.com")), ("localhost", None), ("com", None)] {
        let o = Org::Android(h.to_string());
        for prov in [Prov::Default, Prov::Always] { check(ctx, &o, rp, true, prov); }
        e2e(ctx, true, &o, rp, true, Prov::Default);
    }

    // ---- generated hosts x RP IDs
    let rules = crate::c10::dat_rules();
    let n = if ctx.thorough { 30000 } else { 4000 };
    let schemes = ["https", "https", "https", "HTTPS", "http", "ftp", "wss", "custom"];
    for i in 0..n {
        // host
        let host: String = match ctx.rng.below(10) {
            0 => rand_label(ctx),                                                    // single label
            1 => if ctx.rng.below(3) == 0 { format!("{}.localhost", rand_label(ctx)) } else { "localhost".into() },
            2 => format!("{}.{}.{}.{}", ctx.rng.below(256), ctx.rng.below(256), ctx.rng.below(256), ctx.rng.below(256)),
            3 | 4 => { // a public suffix itself or with labels in front
                let r = &rules[ctx.rng.below(rules.len() as u64) as usize];
                let mut ls = r.0.clone();
                if r.1 == 2 { ls.insert(0, rand_label(ctx)); }
                for _ in 0..ctx.rng.below(3) { ls.insert(0, rand_label(ctx)); }
                ls.join(".")
            }
            5 => { let mut s = (0..ctx.rng.range(2, 4)).map(|_| rand_label(ctx)).collect::<Vec<_>>().join("."); if ctx.rng.bool() { s.push('.'); } s }
            _ => { let k = ctx.rng.range(2, 5); let mut ls: Vec<String> = (0..k).map(|_| rand_label(ctx)).collect(); let tld = ["com", "org", "co.uk", "net", "io", "xn--55qx5d.cn", "kobe.jp"]; ls.push(ctx.rng.pick(&tld).to_string()); ls.join(".") }
        };
        let scheme = *ctx.rng.pick(&schemes);
        let port = if ctx.rng.below(4) == 0 { format!(":{}", ctx.rng.range(1, 65535)) } else { String::new() };
        let android = ctx.rng.below(5) == 0;
        let o = if android { Org::Android(host.clone()) } else {
            match Url::parse(&format!("{}://{}{}/path", scheme, host, port)) { Ok(u) => Org::Web(u), Err(_) => { ctx.stat("rp.url_parse_error"); continue; } }
        };
        let h: String = match &o { Org::Web(u) => u.domain().unwrap_or("").to_string(), Org::Android(h) => h.clone() };
        // RP ID
        let labels: Vec<&str> = h.split('.').collect();
        let rp: Option<String> = match ctx.rng.below(14) {
            0 | 1 => None,
            // the host or a label suffix of it spelled differently: another case, a fullwidth letter, an ideographic or
            // fullwidth full stop for a dot, the Unicode form of a punycode label (an RP ID is compared as supplied)
            12 | 13 => { let k = ctx.rng.below(labels.len() as u64) as usize; let sfx = labels[k..].join(".");
                Some(match ctx.rng.below(6) { 0 => sfx.to_uppercase(), 1 => { let mut c = sfx.chars(); match c.next() { Some(f) => f.to_uppercase().collect::<String>() + c.as_str(), None => sfx.clone() } },
                    2 => sfx.replacen('.', "\u{3002}", 1), 3 => sfx.replacen('.', "\u{ff0e}", 1), 4 => sfx.replacen('e', "\u{ff45}", 1),
                    _ => idna::domain_to_unicode(&sfx).0 }) }
            2 => Some(h.clone()),
            3 | 4 => { let k = ctx.rng.below(labels.len() as u64) as usize; Some(labels[k..].join(".")) }       // label-aligned suffix
            5 => { if h.len() > 1 { let k = ctx.rng.range(1, (h.len() - 1) as u64) as usize; if h.is_char_boundary(k) { Some(h[k..].to_string()) } else { None } } else { Some(String::new()) } } // character suffix
            6 => Some(if ctx.rng.bool() { format!("evil{}", h) } else { format!("{}.{}", rand_label(ctx), h) }),   // glued prefix / extra label in front
            7 => Some(format!("{}.{}", rand_label(ctx), rand_label(ctx))),
            8 => Some(String::new()),
            9 => Some(match ctx.rng.below(4) { 0 => ".".into(), 1 => format!(".{}", h), 2 => format!("{}.", h), _ => format!("a..{}", h) }),
            10 => Some("localhost".into()),
            _ => { let r = &rules[ctx.rng.below(rules.len() as u64) as usize]; Some(r.0.join(".")) }
        };
        let allow = ctx.rng.bool();
        let prov = match ctx.rng.below(6) { 0 => Prov::Always, 1 => Prov::Never, _ => Prov::Default };
        check(ctx, &o, rp.as_deref(), allow, prov);
        if i % 8 == 0 { let reg = ctx.rng.bool(); e2e(ctx, reg, &o, rp.as_deref(), allow, prov); }
    }

    // ---- labels matched by a wildcard rule that also have rules of their own below them (the rules overlap there)
    {
        let wild: Vec<Vec<String>> = rules.iter().filter(|r| r.1 == 2).map(|r| r.0.clone()).collect();
        for (labels, _) in rules.iter() {
            // a rule L.X (or deeper) where *.X is a rule
            if labels.len() < 2 { continue; }
            let parent = labels[labels.len().saturating_sub(labels.len() - 1)..].to_vec();
            if wild.iter().any(|w| *w == parent) || (labels.len() > 2 && wild.iter().any(|w| *w == labels[2..].to_vec())) {
                let name = labels.join(".");
                for h in [name.clone(), format!("{}.{}", rand_label(ctx), name)] {
                    if let Ok(u) = Url::parse(&format!("https://{}", h)) {
                        let o = Org::Web(u);
                        check(ctx, &o, None, false, Prov::Default);
                        check(ctx, &o, Some(&name), false, Prov::Default);
                    }
                }
                ctx.stat("rp.wildcard_with_rules_below");
            }
        }
    }
    // ---- every rule of the list as host and as RP ID of host + 1 label (thorough: all; quick: a seeded tenth, and
    //      every rule of five labels or more: the deepest rules of the list are few)
    let stride = if ctx.thorough { 1 } else { 10 };
    let off = ctx.rng.below(stride as u64) as usize;
    for (i, (labels, kind)) in rules.iter().enumerate() {
        if i % stride != off && labels.len() < 5 { continue; }
        if labels.len() >= 5 { ctx.stat("rp.deep_rule_as_rpid"); }
        let mut base = labels.clone();
        if *kind == 2 { base.insert(0, rand_label(ctx)); }
        let name = base.join(".");
        if let Ok(u) = Url::parse(&format!("https://{}", name)) {
            let o = Org::Web(u);
            check(ctx, &o, None, false, Prov::Default);
        }
        let sub = format!("{}.{}", rand_label(ctx), name);
        if let Ok(u) = Url::parse(&format!("https://{}", sub)) {
            let o = Org::Web(u);
            check(ctx, &o, Some(&name), false, Prov::Default);
            check(ctx, &o, None, false, Prov::Default);
        }
        let oa = Org::Android(sub.clone());
        check(ctx, &oa, Some(&name), false, Prov::Default);
        ctx.stat("rp.rule_as_rpid");
    }
}
