//! C12: authenticator data encoding / decoding against passkey-types.
use crate::util::{guarded, hexf, Ctx};
use coset::{iana, CborSerializable, CoseKeyBuilder};
use passkey_types::ctap2::{make_credential, get_assertion, Aaguid, AttestedCredentialData, AuthenticatorData, Flags};

const NAMED: [(&str, Flags); 6] = [("UP", Flags::UP), ("UV", Flags::UV), ("BE", Flags::BE), ("BS", Flags::BS), ("AT", Flags::AT), ("ED", Flags::ED)];
/// flags by *name* (the property is about the named flags, not raw bits)
fn names_of(f: Flags) -> String {
    let v: Vec<&str> = NAMED.iter().filter(|(_, fl)| f.contains(*fl)).map(|(n, _)| *n).collect();
    if v.is_empty() { "-".into() } else { v.join("+") }
}
fn flags_of(mask: u8) -> Flags {
    let mut f = Flags::empty();
    for (i, (_, fl)) in NAMED.iter().enumerate().take(4) { if mask & (1 << i) != 0 { f |= *fl; } }
    f
}

fn dec_obs(v: &[u8]) -> String {
    match guarded(|| AuthenticatorData::from_slice(v)) {
        None => "panic".into(),
        Some(Err(_)) => "err".into(),
        Some(Ok(a)) => {
            let acd = match &a.attested_credential_data {
                None => "NONE".to_string(),
                Some(c) => format!("{}:{}:{}", hexf(&c.aaguid.0), hexf(c.credential_id()), hexf(&c.key.clone().to_vec().unwrap_or_default())),
            };
            let ext = match &a.extensions {
                None => "NONE".to_string(),
                Some(v) => { let mut b = vec![]; ciborium::ser::into_writer(v, &mut b).unwrap(); hexf(&b) }
            };
            format!("{}/{}:{}/{}/{}/{}", hexf(a.rp_id_hash()), u8::from(a.flags), names_of(a.flags), a.counter.unwrap_or(0), acd, ext)
        }
    }
}

fn cbor_bytes<T: serde::Serialize>(v: &T) -> Vec<u8> { let mut b = vec![]; ciborium::ser::into_writer(v, &mut b).unwrap(); b }

/// returns the op line fields and the encoding (if any)
fn roundtrip(ctx: &mut Ctx, rp: &str, counter: Option<u32>, u: u8, acd: Option<(Vec<u8>, Vec<u8>)>, ext_kind: u8) -> Option<Vec<u8>> {
    // extension outputs, serialised independently (the bytes the model places)
    let mc_ext = match ext_kind {
        1 => Some(make_credential::SignedExtensionOutputs { hmac_secret: Some(true), hmac_secret_mc: None }),
        2 => Some(make_credential::SignedExtensionOutputs { hmac_secret: Some(false), hmac_secret_mc: Some(ctx.rng.bytes_in(0, 80).into()) }),
        4 => Some(make_credential::SignedExtensionOutputs { hmac_secret: None, hmac_secret_mc: None }),
        // each member alone, and both: a section with any member present is written (and ED set)
        5 => Some(make_credential::SignedExtensionOutputs { hmac_secret: None, hmac_secret_mc: Some(ctx.rng.bytes_in(0, 80).into()) }),
        6 => Some(make_credential::SignedExtensionOutputs { hmac_secret: Some(true), hmac_secret_mc: Some(ctx.rng.bytes_in(32, 64).into()) }),
        _ => None,
    };
    let ga_ext = match ext_kind { 3 => Some(get_assertion::SignedExtensionOutputs { hmac_secret: Some(ctx.rng.bytes_in(32, 64).into()) }), _ => None };
    let ext_bytes: Option<Vec<u8>> = match ext_kind { 1 | 2 | 5 | 6 => Some(cbor_bytes(mc_ext.as_ref().unwrap())), 3 => Some(cbor_bytes(ga_ext.as_ref().unwrap())), _ => None };
    // the key shapes a caller can hand over: with and without an algorithm, compressed point, OKP, key id, symmetric
    let key = acd.as_ref().map(|_| match ctx.rng.below(8) {
        0 => CoseKeyBuilder::new_ec2_pub_key(iana::EllipticCurve::P_256, ctx.rng.bytes(32), ctx.rng.bytes(32)).build(),
        1 => CoseKeyBuilder::new_ec2_pub_key_y_sign(iana::EllipticCurve::P_256, ctx.rng.bytes(32), ctx.rng.bool()).algorithm(iana::Algorithm::ES256).build(),
        2 => CoseKeyBuilder::new_okp_key().algorithm(iana::Algorithm::EdDSA)
            .param(iana::OkpKeyParameter::Crv as i64, ciborium::value::Value::from(iana::EllipticCurve::Ed25519 as u64))
            .param(iana::OkpKeyParameter::X as i64, ciborium::value::Value::Bytes(ctx.rng.bytes(32))).build(),
        3 => CoseKeyBuilder::new_ec2_pub_key(iana::EllipticCurve::P_384, ctx.rng.bytes(48), ctx.rng.bytes(48)).algorithm(iana::Algorithm::ES384).key_id(ctx.rng.bytes_in(0, 9)).build(),
        4 => CoseKeyBuilder::new_symmetric_key(ctx.rng.bytes_in(0, 40)).build(),
        _ => CoseKeyBuilder::new_ec2_pub_key(iana::EllipticCurve::P_256, ctx.rng.bytes(32), ctx.rng.bytes(32)).algorithm(iana::Algorithm::ES256).build(),
    });
    // the setters in any order give the same value
    let order = ctx.rng.below(3);
    let key_bytes = key.clone().map(|k| k.to_vec().unwrap());
    let acd_s = match (&acd, &key_bytes) { (Some((ag, cid)), Some(kb)) => format!("{}:{}:{}", hexf(ag), hexf(cid), hexf(kb)), _ => "NONE".into() };
    let op = format!("ad.rt {} {} {} {} {}", hexf(rp.as_bytes()), counter.map(|c| c.to_string()).unwrap_or("NONE".into()), names_of(flags_of(u)), acd_s, ext_bytes.as_ref().map(|b| hexf(b)).unwrap_or("NONE".into()));
    let mut enc_out = None;
    let obs = guarded(|| {
        let (mut ga, mut mc) = (ga_ext, mc_ext);
        let mut a = AuthenticatorData::new(rp, counter);
        if order == 0 { a = a.set_flags(flags_of(u)); }
        if order == 1 { a = if ext_kind == 3 { a.set_assertion_extensions(ga.take()).unwrap() } else { a.set_make_credential_extensions(mc.take()).unwrap() }; }
        if let (Some((ag, cid)), Some(k)) = (acd.clone(), key.clone()) {
            let mut g = [0u8; 16]; g.copy_from_slice(&ag);
            match AttestedCredentialData::new(Aaguid(g), cid, k) { Ok(c) => { a = a.set_attested_credential_data(c); } Err(_) => return ("iderr".to_string(), None) }
        }
        if order != 1 { a = if ext_kind == 3 { a.set_assertion_extensions(ga.take()).unwrap() } else { a.set_make_credential_extensions(mc.take()).unwrap() }; }
        if order != 0 { a = a.set_flags(flags_of(u)); }
        let enc = a.to_vec();
        (format!("enc={} dec={}", hexf(&enc), dec_obs(&enc)), Some(enc))
    });
    let obs_s = match obs { None => "panic".to_string(), Some((s, e)) => { enc_out = e; s } };
    ctx.stat(if obs_s == "iderr" { "ad.rt.id_too_long" } else { "ad.rt.encoded" });
    ctx.line(&op, &obs_s);
    enc_out
}

pub fn gen(ctx: &mut Ctx) {
    // all 256 flag bytes, exhaustively
    for b in 0..=255u8 {
        ctx.line(&format!("ad.flags {}", b), if Flags::from_bits(b).is_some() { "ok" } else { "none" });
    }
    // every flag byte in a minimal 37-byte input: acceptance, must-reject clauses, decoded flag names
    for b in 0..=255u8 {
        let mut v = vec![0x11u8; 32]; v.push(b); v.extend([0, 0, 0, 7]);
        ctx.line(&format!("ad.decx {}", hexf(&v)), &dec_obs(&v));
    }
    let user_flags: Vec<u8> = (0..16u8).collect(); // masks over the named flags UP, UV, BE, BS
    let id_lens: Vec<usize> = if ctx.thorough { vec![0, 1, 15, 16, 17, 64, 255, 256, 257, 1023, 65534, 65535, 65536, 70000] } else { vec![0, 1, 16, 255, 256, 65535, 65536] };
    let mut encs: Vec<Vec<u8>> = vec![];
    // every id length x with/without extensions; all 16 user-flag combinations; counters
    for (i, l) in id_lens.iter().enumerate() {
        for ext in [0u8, 1, 2, 4, 5, 6] {
            let u = user_flags[(i * 5 + ext as usize) % 16];
            let counter = match (i + ext as usize) % 4 { 0 => None, 1 => Some(0), 2 => Some(u32::MAX), _ => Some(ctx.rng.next() as u32) };
            let rp = format!("rp{}.example.com", i);
            let ag = ctx.rng.bytes(16); let cidb = ctx.rng.bytes(*l);
            if let Some(e) = roundtrip(ctx, &rp, counter, u, Some((ag, cidb)), ext) { if e.len() < 2000 { encs.push(e); } }
        }
    }
    for u in &user_flags {
        for ext in [0u8, 3] {
            let counter = if ctx.rng.bool() { Some(ctx.rng.next() as u32) } else { None };
            if let Some(e) = roundtrip(ctx, "example.com", counter, *u, None, ext) { encs.push(e); }
            let cid = ctx.rng.bytes_in(0, 70);
            let ag = ctx.rng.bytes(16);
            if let Some(e) = roundtrip(ctx, "", counter, *u, Some((ag, cid)), ext % 3) { encs.push(e); }
        }
    }
    let n = if ctx.thorough { 3000 } else { 300 };
    for _ in 0..n {
        let rp: String = (0..ctx.rng.below(40)).map(|_| char::from_u32(ctx.rng.range(32, 0x2ff) as u32).unwrap_or('a')).collect();
        let counter = match ctx.rng.below(4) { 0 => None, 1 => Some(0), 2 => Some(1 << 31), _ => Some(ctx.rng.next() as u32) };
        let u = *ctx.rng.pick(&user_flags);
        let acd = if ctx.rng.below(3) != 0 { let cid = ctx.rng.bytes_in(0, 300); let ag = ctx.rng.bytes(16); Some((ag, cid)) } else { None };
        let ext = ctx.rng.below(7) as u8;
        if let Some(e) = roundtrip(ctx, &rp, counter, u, acd, ext) { if encs.len() < 400 { encs.push(e); } }
    }
    // every truncation of valid encodings (compared exactly with the model)
    let step = if ctx.thorough { 1 } else { 3 };
    for (i, e) in encs.iter().enumerate() {
        if !ctx.thorough && i % 4 != 0 { continue; }
        for k in (0..e.len()).step_by(step) {
            ctx.line(&format!("ad.dec {}", hexf(&e[..k])), &dec_obs(&e[..k]));
            ctx.stat("ad.truncations");
        }
        // valid encoding followed by trailing bytes
        let mut t = e.clone(); t.extend(ctx.rng.bytes_in(1, 5));
        ctx.line(&format!("ad.dec {}", hexf(&t)), &dec_obs(&t));
    }
    // single-byte corruptions (Spec only)
    for (i, e) in encs.iter().enumerate() {
        if !ctx.thorough && i % 6 != 0 { continue; }
        let positions: Vec<usize> = if ctx.thorough { (0..e.len()).collect() } else { (0..e.len()).filter(|p| *p >= 30 && (*p < 60 || p % 5 == 0)).collect() };
        for p in positions {
            let mut c = e.clone();
            c[p] ^= if ctx.rng.bool() { 1 << ctx.rng.below(8) } else { ctx.rng.range(1, 255) as u8 };
            ctx.line(&format!("ad.decx {}", hexf(&c)), &dec_obs(&c));
            ctx.stat("ad.corruptions");
        }
    }
    // arbitrary bytes
    for _ in 0..(if ctx.thorough { 3000 } else { 300 }) {
        let v = ctx.rng.bytes_in(0, 120);
        ctx.line(&format!("ad.decx {}", hexf(&v)), &dec_obs(&v));
        ctx.stat("ad.arbitrary");
    }
}
