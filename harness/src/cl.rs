//! Client-level scenarios (C02, C03, C06, C09, C11): `Client::{register, authenticate}` on instrumented stores.
use crate::au::*;
use crate::env::*;
use crate::util::{guarded, hexf, Ctx};
use passkey_authenticator::{Authenticator, CredentialIdLength, MemoryStore};
use passkey_client::{Client, DefaultClientData, DefaultClientDataWithCustomHash, DefaultClientDataWithExtra, Origin, UnverifiedAssetLink, WebauthnError};
use passkey_types::ctap2::Aaguid;
use passkey_types::webauthn::{self, AuthenticationExtensionsClientInputs, AuthenticationExtensionsPrfInputs, AuthenticationExtensionsPrfValues,
    AuthenticatorSelectionCriteria, PublicKeyCredentialDescriptor, PublicKeyCredentialParameters, PublicKeyCredentialType, ResidentKeyRequirement, UserVerificationRequirement};
use passkey_types::Passkey;
use std::collections::HashMap;
use std::sync::{Arc, Mutex};
use url::Url;

#[derive(Clone, Debug)]
pub enum Org { Web(String), Android(String) }

#[derive(Clone, Debug)]
pub struct CPrfV { pub first: Vec<u8>, pub second: Option<Vec<u8>> }
#[derive(Clone, Debug, Default)]
pub struct CPrfI { pub eval: Option<CPrfV>, pub by_cred: Option<Vec<(String, CPrfV)>> }
#[derive(Clone, Debug, Default)]
pub struct CExt { pub cred_props: Option<bool>, pub prf: Option<CPrfI>, pub prf_hashed: Option<CPrfI> }
#[derive(Clone, Debug)]
pub enum CdMode { Default, Extra(serde_json::Map<String, serde_json::Value>), Hash(Vec<u8>) }
#[derive(Clone, Copy, Debug, PartialEq)]
pub enum Rk { Discouraged, Preferred, Required }
#[derive(Clone, Copy, Debug, PartialEq)]
pub enum UvR { Required, Preferred, Discouraged }
#[derive(Clone, Debug)]
pub struct Sel { pub rk: Option<Rk>, pub rrk: bool, pub uv: UvR }

#[derive(Clone, Debug)]
pub struct RegOp { pub org: Org, pub allow_localhost: bool, pub rp: Option<String>, pub user: Vec<u8>, pub challenge: Vec<u8>, pub algs: Vec<i64>,
    pub exclude: Option<Vec<Vec<u8>>>, pub sel: Option<Sel>, pub ext: Option<CExt>, pub cd: CdMode }
#[derive(Clone, Debug)]
pub struct AuthOp { pub org: Org, pub allow_localhost: bool, pub rp: Option<String>, pub challenge: Vec<u8>, pub allow: Option<Vec<Vec<u8>>>, pub allow_last: bool, pub allow_refs: Vec<usize>, pub unk: Vec<usize>, pub uv: UvR,
    pub ext: Option<CExt>, pub cd: CdMode }

fn uvr(u: UvR) -> UserVerificationRequirement { match u { UvR::Required => UserVerificationRequirement::Required, UvR::Preferred => UserVerificationRequirement::Preferred, UvR::Discouraged => UserVerificationRequirement::Discouraged } }
fn uvr_c(u: UvR) -> char { match u { UvR::Required => 'r', UvR::Preferred => 'p', UvR::Discouraged => 'd' } }

fn prfv_s(v: &CPrfV) -> String { format!("{}+{}", hexf(&v.first), v.second.as_ref().map(|s| hexf(s)).unwrap_or("N".into())) }
fn prfi_s(p: &Option<CPrfI>) -> String {
    match p { None => "N".into(), Some(i) => format!("{}~{}", i.eval.as_ref().map(prfv_s).unwrap_or("N".into()),
        match &i.by_cred { None => "N".to_string(), Some(l) if l.is_empty() => "E".to_string(), Some(l) => l.iter().map(|(k, v)| format!("{}={}", hexf(k.as_bytes()), prfv_s(v))).collect::<Vec<_>>().join("|") }) }
}
fn ext_s(e: &Option<CExt>) -> String {
    match e { None => "N".into(), Some(x) => format!("cp:{}/prf:{}/pah:{}", x.cred_props.map(|b| (b as u8).to_string()).unwrap_or("N".into()), prfi_s(&x.prf), prfi_s(&x.prf_hashed)) }
}
fn prfi_real(p: &CPrfI) -> AuthenticationExtensionsPrfInputs {
    let conv = |v: &CPrfV| AuthenticationExtensionsPrfValues { first: v.first.clone().into(), second: v.second.clone().map(Into::into) };
    AuthenticationExtensionsPrfInputs { eval: p.eval.as_ref().map(conv), eval_by_credential: p.by_cred.as_ref().map(|l| l.iter().map(|(k, v)| (k.clone(), conv(v))).collect::<HashMap<_, _>>()) }
}
fn ext_real(e: &Option<CExt>) -> Option<AuthenticationExtensionsClientInputs> {
    e.as_ref().map(|x| AuthenticationExtensionsClientInputs { cred_props: x.cred_props, prf: x.prf.as_ref().map(prfi_real), prf_already_hashed: x.prf_hashed.as_ref().map(prfi_real) })
}
fn sel_s(s: &Option<Sel>) -> String {
    match s { None => "N".into(), Some(x) => format!("{}{}{}", match x.rk { None => 'N', Some(Rk::Discouraged) => 'd', Some(Rk::Preferred) => 'p', Some(Rk::Required) => 'r' }, x.rrk as u8, uvr_c(x.uv)) }
}
fn cd_s(c: &CdMode) -> String {
    match c { CdMode::Default => "D".into(), CdMode::Hash(h) => format!("H{}", hexf(h)),
        CdMode::Extra(m) => { let t = serde_json::to_string(&serde_json::Value::Object(m.clone())).unwrap(); format!("X{}", hexf(t[1..t.len() - 1].as_bytes())) } }
}
fn ids_s(l: &Option<Vec<Vec<u8>>>) -> String { ids_su(l, &[]) }
/// an entry typed `Unknown` (index in `unk`) is prefixed with `u`
fn ids_su(l: &Option<Vec<Vec<u8>>>, unk: &[usize]) -> String { match l { None => "N".into(), Some(v) if v.is_empty() => "E".into(), Some(v) => v.iter().enumerate().map(|(k, i)| format!("{}{}", if unk.contains(&k) { "u" } else { "" }, hexf(i))).collect::<Vec<_>>().join(",") } }
fn descs(l: &Option<Vec<Vec<u8>>>) -> Option<Vec<PublicKeyCredentialDescriptor>> { descs_u(l, &[]) }
fn descs_u(l: &Option<Vec<Vec<u8>>>, unk: &[usize]) -> Option<Vec<PublicKeyCredentialDescriptor>> {
    l.as_ref().map(|v| v.iter().enumerate().map(|(k, i)| PublicKeyCredentialDescriptor { ty: if unk.contains(&k) { PublicKeyCredentialType::Unknown } else { PublicKeyCredentialType::PublicKey }, id: i.clone().into(), transports: dont_care_transports(i) }).collect())
}
fn alg_of(a: i64) -> coset::iana::Algorithm { use coset::iana::EnumI64; coset::iana::Algorithm::from_i64(a).unwrap_or(coset::iana::Algorithm::RS512) }

const FP: &str = "B3:5B:68:D5:CE:84:50:55:7C:6A:55:FD:64:B5:1F:EA:C1:10:CB:36:D6:A3:52:1C:59:48:DB:3A:38:0A:34:A9";

/// origin fields: kind scheme domain|NONE allowLocalhost ascii|ERR originStringHex ; `None` if the URL does not parse
fn origin_fields(org: &Org, rp: Option<&str>, allow: bool) -> Option<(String, Option<Url>)> {
    match org {
        Org::Web(u) => {
            let url = Url::parse(u).ok()?;
            let host = url.domain().map(|s| s.to_string());
            let eff = rp.map(|s| s.to_string()).or(host.clone());
            let ascii = match eff { Some(e) => idna::domain_to_ascii(&e).map(|a| hexf(a.as_bytes())).unwrap_or("ERR".into()), None => "ERR".into() };
            let ostr = url.as_str().trim_end_matches('/').to_string();
            Some((format!("web {} {} {} {} {}", hexf(url.scheme().as_bytes()), host.map(|h| hexf(h.as_bytes())).unwrap_or("NONE".into()), allow as u8, ascii, hexf(ostr.as_bytes())), Some(url)))
        }
        Org::Android(h) => {
            let eff = rp.map(|s| s.to_string()).unwrap_or(h.clone());
            let ascii = idna::domain_to_ascii(&eff).map(|a| hexf(a.as_bytes())).unwrap_or("ERR".into());
            // Display of an Android origin: android:apk-key-hash:<base64url of the fingerprint>
            let fp: Vec<u8> = FP.split(':').map(|b| u8::from_str_radix(b, 16).unwrap()).collect();
            let ostr = format!("android:apk-key-hash:{}", passkey_types::encoding::base64url(&fp));
            Some((format!("android - {} {} {} {}", hexf(h.as_bytes()), allow as u8, ascii, hexf(ostr.as_bytes())), None))
        }
    }
}

pub fn werr(e: &WebauthnError) -> String {
    match e {
        WebauthnError::AuthenticatorError(b) => format!("AuthenticatorError({})", b),
        WebauthnError::OriginMissingDomain | WebauthnError::OriginRpMissmatch | WebauthnError::UnprotectedOrigin | WebauthnError::InsecureLocalhostNotAllowed | WebauthnError::InvalidRpId => format!("rp.{:?}", e),
        other => format!("{:?}", other),
    }
}

/// per-credential PRF keys written `@k` stand for the base64url id of the k-th credential registered in the case;
/// later entries repeating a key are dropped (the real input is a map)
fn resolve_keys(e: &Option<CExt>, reg_ids: &[Vec<u8>]) -> Option<CExt> {
    let fix = |p: &Option<CPrfI>| p.as_ref().map(|i| CPrfI { eval: i.eval.clone(), by_cred: i.by_cred.as_ref().map(|l| {
        let mut out: Vec<(String, CPrfV)> = vec![];
        for (k, v) in l {
            // `<prefix>@<k><suffix>`: the k-th id in base64url with the given text around it
            let key = match k.find('@') {
                Some(pos) => { let rest = &k[pos + 1..]; let digits: String = rest.chars().take_while(|c| c.is_ascii_digit()).collect(); let suffix = &rest[digits.len()..];
                    let mid = if reg_ids.is_empty() { "AAAA".to_string() } else { passkey_types::encoding::base64url(&reg_ids[digits.parse::<usize>().unwrap_or(0) % reg_ids.len()]) };
                    format!("{}{}{}", &k[..pos], mid, suffix) }
                None => k.clone() };
            if !out.iter().any(|(k2, _)| *k2 == key) { out.push((key, v.clone())); }
        }
        out }) });
    e.as_ref().map(|x| CExt { cred_props: x.cred_props, prf: fix(&x.prf), prf_hashed: fix(&x.prf_hashed) })
}

pub enum COp { Reg(RegOp), Auth(AuthOp) }
pub struct CStep { pub op: COp, pub uv: UvState, pub faults: Vec<Option<u8>> }
pub fn cstep(op: COp) -> CStep { CStep { op, uv: UvState::ok(), faults: vec![] } }

fn prf_out_s(p: &Option<webauthn::AuthenticationExtensionsPrfOutputs>, with_enabled: bool) -> String {
    match p { None => "N".into(), Some(o) => {
        let r = match &o.results { None => "N".to_string(), Some(v) => format!("{}+{}", hexf(&v.first), v.second.as_ref().map(|s| hexf(s)).unwrap_or("N".into())) };
        if with_enabled { format!("{}+{}", o.enabled.map(|b| (b as u8).to_string()).unwrap_or("N".into()), r) } else { r }
    } }
}

fn run_generic<S: Inner + 'static>(ctx: &mut Ctx, prop: &str, w: &World, inner: S, steps: &[CStep]) {
    let log = new_log();
    let uvst = Arc::new(Mutex::new(UvState::ok()));
    let mut store = RecStore::new(inner, log.clone());
    for p in &w.preload { store.inner.put(p.clone()); }
    let mut auth = Authenticator::new(Aaguid::from(crate::util::AAGUID), store, SharedUv { st: uvst.clone(), log: log.clone(), yields: false });
    auth.set_make_credentials_with_signature_counter(w.counter_on);
    auth.set_make_credential_id_length(CredentialIdLength::from(w.id_len));
    if let Some(c) = hm_cfg(w.hm) { auth = auth.hmac_secret(c); }
    if w.id_len % 2 == 0 { auth = auth.transports(vec![webauthn::AuthenticatorTransport::Internal, webauthn::AuthenticatorTransport::Hybrid]); }
    let mut client = Client::new(auth);
    ctx.line(&format!("au.reset {} {} {} {} {}", prop, w.kind.name(), w.counter_on as u8, w.id_len, w.hm.name()), "");
    for p in &w.preload { ctx.line(&format!("au.load {}", passkey_line(p)), ""); }
    let mut last_id: Option<Vec<u8>> = None;
    let mut reg_ids: Vec<Vec<u8>> = w.preload.iter().map(|p| p.credential_id.to_vec()).collect();
    for st in steps {
        *uvst.lock().unwrap() = st.uv;
        client.authenticator_mut().store_mut().faults = st.faults.clone();
        *client.authenticator_mut().store_mut().calls.lock().unwrap() = 0;
        *client.authenticator_mut().store_mut().last_saved.lock().unwrap() = None;
        log.lock().unwrap().clear();
        match &st.op {
            COp::Reg(r) => {
                let Some((of, url)) = origin_fields(&r.org, r.rp.as_deref(), r.allow_localhost) else { ctx.stat("cl.url_parse_error"); continue; };
                client = client.allows_insecure_localhost(r.allow_localhost);
                let opts = webauthn::CredentialCreationOptions { public_key: webauthn::PublicKeyCredentialCreationOptions {
                    // members neither the client nor the authenticator acts on, varied with the challenge / user id
                    rp: webauthn::PublicKeyCredentialRpEntity { id: r.rp.clone(), name: if r.challenge.first().copied().unwrap_or(0) % 2 == 0 { "rp".into() } else { format!("R\u{e9}lying \u{1f600} {}", "p".repeat(70)) } },
                    user: webauthn::PublicKeyCredentialUserEntity { id: r.user.clone().into(),
                        display_name: if r.user.len() % 3 == 0 { "d".into() } else { format!("D\u{e9}{}", "\u{20ac}".repeat(20 + r.user.len())) },
                        name: if r.user.len() % 3 == 1 { "n".into() } else { format!("account-{}-{}@example.com", hexf(&r.user), "x".repeat(50)) } },
                    challenge: r.challenge.clone().into(),
                    pub_key_cred_params: r.algs.iter().map(|a| PublicKeyCredentialParameters { ty: PublicKeyCredentialType::PublicKey, alg: alg_of(*a) }).collect(),
                    timeout: match r.challenge.last().copied().unwrap_or(0) % 4 { 0 => None, 1 => Some(0), 2 => Some(60000), _ => Some(u32::MAX) }, exclude_credentials: descs(&r.exclude),
                    authenticator_selection: r.sel.as_ref().map(|s| AuthenticatorSelectionCriteria { authenticator_attachment: match r.challenge.first().copied().unwrap_or(0) % 3 { 0 => None, 1 => Some(webauthn::AuthenticatorAttachment::Platform), _ => Some(webauthn::AuthenticatorAttachment::CrossPlatform) },
                        resident_key: s.rk.map(|k| match k { Rk::Discouraged => ResidentKeyRequirement::Discouraged, Rk::Preferred => ResidentKeyRequirement::Preferred, Rk::Required => ResidentKeyRequirement::Required }),
                        require_resident_key: s.rrk, user_verification: uvr(s.uv) }),
                    hints: match r.challenge.len() % 3 { 0 => None, 1 => Some(vec![]), _ => Some(vec![webauthn::PublicKeyCredentialHints::SecurityKey, webauthn::PublicKeyCredentialHints::Hybrid]) },
                    attestation: match r.user.first().copied().unwrap_or(0) % 4 { 0 => webauthn::AttestationConveyancePreference::None, 1 => webauthn::AttestationConveyancePreference::Indirect, 2 => webauthn::AttestationConveyancePreference::Direct, _ => webauthn::AttestationConveyancePreference::Enterprise },
                    attestation_formats: match r.user.last().copied().unwrap_or(0) % 3 { 0 => None, 1 => Some(vec![]), _ => Some(vec![webauthn::AttestationStatementFormatIdentifiers::Packed, webauthn::AttestationStatementFormatIdentifiers::None]) },
                    extensions: ext_real(&r.ext) } };
                let res = guarded(|| {
                    let link = Url::parse("https://example.com/.well-known/assetlinks.json").unwrap();
                    let origin: Origin = match (&r.org, &url) { (Org::Web(_), Some(u)) => Origin::from(u), (Org::Android(h), _) => Origin::Android(UnverifiedAssetLink::new("com.example.app", FP, h.as_str(), link).unwrap()), _ => unreachable!() };
                    match &r.cd { CdMode::Default => block_on(client.register(origin, opts, DefaultClientData)),
                        CdMode::Hash(h) => block_on(client.register(origin, opts, DefaultClientDataWithCustomHash(h.clone()))),
                        CdMode::Extra(m) => block_on(client.register(origin, opts, DefaultClientDataWithExtra(m.clone()))) }
                });
                let draws = client.authenticator().store().last_saved.lock().unwrap().clone().map(|p| {
                    let (d, x, y) = key_parts(&p);
                    let (s1, s2) = match &p.extensions.hmac_secret { Some(h) => (hexf(&h.cred_with_uv), opt_hex(h.cred_without_uv.as_deref())), None => ("N".into(), "N".into()) };
                    format!("{}:{}:{}:{}:{}:{}", hexf(&p.credential_id), hexf(&d), hexf(&x), hexf(&y), s1, s2)
                }).unwrap_or("N".into());
                if let Some(Ok(c)) = &res { last_id = Some(c.raw_id.to_vec()); reg_ids.push(c.raw_id.to_vec()); }
                let rs = match res { None => "panic".to_string(), Some(Err(e)) => format!("err:{}", werr(&e)),
                    Some(Ok(c)) => format!("ok:{}:{}:{}:{}:{}:{}:{}:{}:{}", hexf(c.id.as_bytes()), hexf(&c.raw_id), hexf(&c.response.client_data_json), hexf(&c.response.authenticator_data),
                        c.response.public_key.as_ref().map(|k| hexf(k)).unwrap_or("N".into()), c.response.public_key_algorithm, hexf(&c.response.attestation_object),
                        c.client_extension_results.cred_props.as_ref().map(|p| p.discoverable.map(|b| (b as u8).to_string()).unwrap_or("?".into())).unwrap_or("N".into()),
                        prf_out_s(&c.client_extension_results.prf, true)) };
                let ev = log.lock().unwrap().join(";");
                let obs = format!("res={} ev={} store={}", rs, if ev.is_empty() { "-".into() } else { ev }, snap_pub(&client.authenticator().store().inner.all()));
                ctx.stat(&format!("cl.reg.{}", rs.split(':').next().unwrap()));
                ctx.line(&format!("cl.reg {} {} {} {} {} {} {} {} {} {} {} {}", of, r.rp.as_ref().map(|s| hexf(s.as_bytes())).unwrap_or("NONE".into()), hexf(&r.user), hexf(&r.challenge),
                    if r.algs.is_empty() { "-".to_string() } else { r.algs.iter().map(|a| a.to_string()).collect::<Vec<_>>().join(",") }, ids_s(&r.exclude), sel_s(&r.sel), ext_s(&r.ext), cd_s(&r.cd), st.uv.enc(), faults_pub(&st.faults), draws), &obs);
            }
            COp::Auth(a0) => {
                let mut a1 = a0.clone();
                if a1.allow_last { if let Some(id) = &last_id { a1.allow = Some(vec![id.clone()]); } }
                if !a1.allow_refs.is_empty() && !reg_ids.is_empty() {
                    let mut l = a1.allow.clone().unwrap_or_default();
                    for k in &a1.allow_refs { l.push(reg_ids[k % reg_ids.len()].clone()); }
                    a1.allow = Some(l);
                }
                a1.ext = resolve_keys(&a1.ext, &reg_ids);
                let a = &a1;
                let Some((of, url)) = origin_fields(&a.org, a.rp.as_deref(), a.allow_localhost) else { ctx.stat("cl.url_parse_error"); continue; };
                client = client.allows_insecure_localhost(a.allow_localhost);
                let opts = webauthn::CredentialRequestOptions { public_key: webauthn::PublicKeyCredentialRequestOptions {
                    challenge: a.challenge.clone().into(), timeout: match a.challenge.last().copied().unwrap_or(0) % 4 { 0 => None, 1 => Some(0), 2 => Some(60000), _ => Some(u32::MAX) },
                    rp_id: a.rp.clone(), allow_credentials: descs_u(&a.allow, &a.unk),
                    user_verification: uvr(a.uv),
                    hints: match a.challenge.len() % 3 { 0 => None, 1 => Some(vec![]), _ => Some(vec![webauthn::PublicKeyCredentialHints::ClientDevice]) },
                    attestation: match a.challenge.first().copied().unwrap_or(0) % 3 { 0 => webauthn::AttestationConveyancePreference::None, 1 => webauthn::AttestationConveyancePreference::Direct, _ => webauthn::AttestationConveyancePreference::Enterprise },
                    attestation_formats: if a.challenge.first().copied().unwrap_or(0) % 2 == 0 { None } else { Some(vec![webauthn::AttestationStatementFormatIdentifiers::Tpm]) },
                    extensions: ext_real(&a.ext) } };
                let res = guarded(|| {
                    let link = Url::parse("https://example.com/.well-known/assetlinks.json").unwrap();
                    let origin: Origin = match (&a.org, &url) { (Org::Web(_), Some(u)) => Origin::from(u), (Org::Android(h), _) => Origin::Android(UnverifiedAssetLink::new("com.example.app", FP, h.as_str(), link).unwrap()), _ => unreachable!() };
                    match &a.cd { CdMode::Default => block_on(client.authenticate(origin, opts, DefaultClientData)),
                        CdMode::Hash(h) => block_on(client.authenticate(origin, opts, DefaultClientDataWithCustomHash(h.clone()))),
                        CdMode::Extra(m) => block_on(client.authenticate(origin, opts, DefaultClientDataWithExtra(m.clone()))) }
                });
                let rs = match res { None => "panic".to_string(), Some(Err(e)) => format!("err:{}", werr(&e)),
                    Some(Ok(c)) => format!("ok:{}:{}:{}:{}:{}:{}:{}", hexf(c.id.as_bytes()), hexf(&c.raw_id), hexf(&c.response.client_data_json), hexf(&c.response.authenticator_data),
                        c.response.user_handle.as_ref().map(|u| hexf(u)).unwrap_or("N".into()), prf_out_s(&c.client_extension_results.prf, false), hexf(&c.response.signature)) };
                let ev = log.lock().unwrap().join(";");
                let obs = format!("res={} ev={} store={}", rs, if ev.is_empty() { "-".into() } else { ev }, snap_pub(&client.authenticator().store().inner.all()));
                ctx.stat(&format!("cl.auth.{}", rs.split(':').next().unwrap()));
                ctx.line(&format!("cl.auth {} {} {} {} {} {} {} {} {}", of, a.rp.as_ref().map(|s| hexf(s.as_bytes())).unwrap_or("NONE".into()), hexf(&a.challenge), ids_su(&a.allow, &a.unk), uvr_c(a.uv), ext_s(&a.ext), cd_s(&a.cd), st.uv.enc(), faults_pub(&st.faults)), &obs);
            }
        }
    }
    ctx.line("au.end", "");
    ctx.stat("cl.cases");
}

pub fn run_ccase(ctx: &mut Ctx, prop: &str, w: &World, steps: &[CStep]) {
    match w.kind {
        Kind::Map => run_generic(ctx, prop, w, MemoryStore::new(), steps),
        Kind::Slot => run_generic(ctx, prop, w, None::<Passkey>, steps),
        Kind::RefFull => run_generic(ctx, prop, w, RefStore::new(d_full_pub), steps),
        Kind::RefNonDisc => run_generic(ctx, prop, w, RefStore::new(d_non_pub), steps),
        Kind::RefForced => run_generic(ctx, prop, w, RefStore::new(d_forced_pub), steps),
        Kind::MapArcMutex => run_generic(ctx, prop, w, Arc::new(tokio::sync::Mutex::new(MemoryStore::new())), steps),
        Kind::MapArcRwLock => run_generic(ctx, prop, w, Arc::new(tokio::sync::RwLock::new(MemoryStore::new())), steps),
        Kind::MapMutex => run_generic(ctx, prop, w, tokio::sync::Mutex::new(MemoryStore::new()), steps),
        Kind::MapRwLock => run_generic(ctx, prop, w, tokio::sync::RwLock::new(MemoryStore::new()), steps),
        Kind::SlotArcMutex => run_generic(ctx, prop, w, Arc::new(tokio::sync::Mutex::new(None::<Passkey>)), steps),
        Kind::SlotArcRwLock => run_generic(ctx, prop, w, Arc::new(tokio::sync::RwLock::new(None::<Passkey>)), steps),
        Kind::SlotMutex => run_generic(ctx, prop, w, tokio::sync::Mutex::new(None::<Passkey>), steps),
        Kind::SlotRwLock => run_generic(ctx, prop, w, tokio::sync::RwLock::new(None::<Passkey>), steps),
        Kind::RefArcMutex => run_generic(ctx, prop, w, Arc::new(tokio::sync::Mutex::new(RefStore::new(d_full_pub))), steps),
        Kind::RefArcRwLock => run_generic(ctx, prop, w, Arc::new(tokio::sync::RwLock::new(RefStore::new(d_full_pub))), steps),
        Kind::RefMutex => run_generic(ctx, prop, w, tokio::sync::Mutex::new(RefStore::new(d_full_pub)), steps),
        Kind::RefRwLock => run_generic(ctx, prop, w, tokio::sync::RwLock::new(RefStore::new(d_full_pub)), steps),
        Kind::RefNonDiscArcMutex => run_generic(ctx, prop, w, Arc::new(tokio::sync::Mutex::new(RefStore::new(d_non_pub))), steps),
        Kind::RefNonDiscArcRwLock => run_generic(ctx, prop, w, Arc::new(tokio::sync::RwLock::new(RefStore::new(d_non_pub))), steps),
        Kind::RefNonDiscMutex => run_generic(ctx, prop, w, tokio::sync::Mutex::new(RefStore::new(d_non_pub)), steps),
        Kind::RefNonDiscRwLock => run_generic(ctx, prop, w, tokio::sync::RwLock::new(RefStore::new(d_non_pub)), steps),
        Kind::RefForcedArcMutex => run_generic(ctx, prop, w, Arc::new(tokio::sync::Mutex::new(RefStore::new(d_forced_pub))), steps),
        Kind::RefForcedRwLock => run_generic(ctx, prop, w, tokio::sync::RwLock::new(RefStore::new(d_forced_pub)), steps),
        Kind::RefFullEmptyOk => run_generic(ctx, prop, w, RefStore::new_empty_ok(d_full_pub), steps),
    }
}

pub fn simple_reg(ctx: &mut Ctx, url: &str, rp: Option<&str>) -> RegOp {
    RegOp { org: Org::Web(url.to_string()), allow_localhost: false, rp: rp.map(|s| s.to_string()), user: ctx.rng.bytes_in(1, 16), challenge: ctx.rng.bytes(32), algs: vec![-7],
        exclude: None, sel: None, ext: None, cd: CdMode::Default }
}
pub fn simple_auth(ctx: &mut Ctx, url: &str, rp: Option<&str>) -> AuthOp {
    AuthOp { org: Org::Web(url.to_string()), allow_localhost: false, rp: rp.map(|s| s.to_string()), challenge: ctx.rng.bytes(32), allow: None, allow_last: false, allow_refs: vec![], unk: vec![], uv: UvR::Preferred, ext: None, cd: CdMode::Default }
}

/// C14: a real registration and authentication; the JSON serialisations of the two emitted credentials
pub fn emit_pair(ctx: &mut Ctx, i: usize) -> Vec<(String, String, String)> {
    let log = new_log();
    let uvst = Arc::new(Mutex::new(UvState::ok()));
    let store = RecStore::new(MemoryStore::new(), log.clone());
    let mut auth = Authenticator::new(Aaguid::from(crate::util::AAGUID), store, SharedUv { st: uvst, log: log.clone(), yields: false });
    auth.set_make_credentials_with_signature_counter(i % 2 == 0);
    if i % 3 != 0 { auth = auth.hmac_secret(passkey_authenticator::extensions::HmacSecretConfig::new_without_uv().enable_on_make_credential()); }
    // the transports the authenticator reports end up in the emitted credential: none, one, several
    match i % 5 { 0 => { auth = auth.transports(vec![]); } 1 => { auth = auth.transports(vec![webauthn::AuthenticatorTransport::Usb]); } 2 => { auth = auth.transports(vec![webauthn::AuthenticatorTransport::Ble, webauthn::AuthenticatorTransport::Nfc, webauthn::AuthenticatorTransport::Hybrid]); } _ => {} }
    let mut client = Client::new(auth);
    let url = Url::parse("https://www.example.com").unwrap();
    let prf = |ctx: &mut Ctx| AuthenticationExtensionsPrfInputs { eval: Some(AuthenticationExtensionsPrfValues { first: ctx.rng.bytes_in(1, 20).into(), second: if ctx.rng.bool() { Some(ctx.rng.bytes(4).into()) } else { None } }), eval_by_credential: None };
    let opts = webauthn::CredentialCreationOptions { public_key: webauthn::PublicKeyCredentialCreationOptions {
        rp: webauthn::PublicKeyCredentialRpEntity { id: Some("example.com".into()), name: "rp".into() },
        user: webauthn::PublicKeyCredentialUserEntity { id: ctx.rng.bytes_in(1, 32).into(), display_name: "d".into(), name: "n".into() },
        challenge: ctx.rng.bytes_in(0, 48).into(),
        pub_key_cred_params: vec![PublicKeyCredentialParameters { ty: PublicKeyCredentialType::PublicKey, alg: coset::iana::Algorithm::ES256 }],
        timeout: None, exclude_credentials: None, authenticator_selection: None, hints: None, attestation: Default::default(), attestation_formats: None,
        extensions: if i % 4 == 0 { None } else { Some(AuthenticationExtensionsClientInputs { cred_props: if i % 2 == 0 { Some(true) } else { None }, prf: if i % 3 == 1 { Some(prf(ctx)) } else { None }, prf_already_hashed: None }) } } };
    let mut out = vec![];
    let Some(Ok(c)) = guarded(|| block_on(client.register(&url, opts, DefaultClientData))) else { return out; };
    let id = c.raw_id.to_vec();
    out.push(("created".to_string(), serde_json::to_string(&c).unwrap(), format!("{:?}", c)));
    let opts = webauthn::CredentialRequestOptions { public_key: webauthn::PublicKeyCredentialRequestOptions {
        challenge: ctx.rng.bytes_in(0, 48).into(), timeout: None, rp_id: Some("example.com".into()),
        allow_credentials: Some(vec![PublicKeyCredentialDescriptor { ty: PublicKeyCredentialType::PublicKey, id: id.into(), transports: None }]),
        user_verification: Default::default(), hints: None, attestation: Default::default(), attestation_formats: None,
        extensions: if i % 3 == 1 { Some(AuthenticationExtensionsClientInputs { cred_props: None, prf: Some(prf(ctx)), prf_already_hashed: None }) } else { None } } };
    if let Some(Ok(a)) = guarded(|| block_on(client.authenticate(&url, opts, DefaultClientData))) { out.push(("authenticated".to_string(), serde_json::to_string(&a).unwrap(), format!("{:?}", a))); }
    out
}
