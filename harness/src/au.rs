//! Authenticator-level scenarios (C04, C05, C07, C08, C11 and the CTAP halves of C02/C03/C09):
//! direct calls of `Authenticator::{make_credential, get_assertion}` on instrumented stores.
use crate::env::*;
use crate::util::{guarded, hexf, Ctx};
use coset::{iana, CoseKeyBuilder};
use passkey_authenticator::{extensions::HmacSecretConfig, Authenticator, CredentialIdLength, CredentialStore, DiscoverabilitySupport, MemoryStore};
use passkey_types::ctap2::{extensions::{AuthenticatorPrfInputs, AuthenticatorPrfValues}, get_assertion, make_credential, Aaguid, StatusCode};
use passkey_types::webauthn::{self, PublicKeyCredentialDescriptor, PublicKeyCredentialParameters, PublicKeyCredentialType};
use passkey_types::{CredentialExtensions, Passkey, StoredHmacSecret};
use std::collections::HashMap;
use std::sync::{Arc, Mutex};

// ---------------------------------------------------------------- world description

#[derive(Clone, Copy, PartialEq, Debug)]
pub enum Kind { Map, Slot, RefFull, RefNonDisc, RefForced, MapArcMutex, MapArcRwLock, MapMutex, MapRwLock, SlotArcMutex, SlotArcRwLock, SlotMutex, SlotRwLock, RefArcMutex, RefArcRwLock, RefMutex, RefRwLock,
    RefNonDiscArcMutex, RefNonDiscArcRwLock, RefNonDiscMutex, RefNonDiscRwLock, RefForcedArcMutex, RefForcedRwLock,
    /// the contract store answering a miss with an empty list
    RefFullEmptyOk }
impl Kind {
    /// the name the model knows the store by (lock wrappers behave like the store they wrap)
    pub fn name(self) -> &'static str { match self { Kind::Map | Kind::MapArcMutex | Kind::MapArcRwLock | Kind::MapMutex | Kind::MapRwLock => "map", Kind::Slot | Kind::SlotArcMutex | Kind::SlotArcRwLock | Kind::SlotMutex | Kind::SlotRwLock => "slot", Kind::RefFull | Kind::RefArcMutex | Kind::RefArcRwLock | Kind::RefMutex | Kind::RefRwLock | Kind::RefFullEmptyOk => "ref:full", Kind::RefNonDisc | Kind::RefNonDiscArcMutex | Kind::RefNonDiscArcRwLock | Kind::RefNonDiscMutex | Kind::RefNonDiscRwLock => "ref:nondisc",
        Kind::RefForced | Kind::RefForcedArcMutex | Kind::RefForcedRwLock => "ref:forced" } }
}
#[derive(Clone, Copy, PartialEq, Debug)]
pub enum Hm { None, UvOnly, NoUv, UvOnlyMc, NoUvMc }
impl Hm {
    pub fn name(self) -> &'static str { match self { Hm::None => "none", Hm::UvOnly => "uvonly", Hm::NoUv => "nouv", Hm::UvOnlyMc => "uvonly+mc", Hm::NoUvMc => "nouv+mc" } }
    fn cfg(self) -> Option<HmacSecretConfig> {
        match self { Hm::None => None, Hm::UvOnly => Some(HmacSecretConfig::new_with_uv_only()), Hm::NoUv => Some(HmacSecretConfig::new_without_uv()),
            Hm::UvOnlyMc => Some(HmacSecretConfig::new_with_uv_only().enable_on_make_credential()), Hm::NoUvMc => Some(HmacSecretConfig::new_without_uv().enable_on_make_credential()) }
    }
}
#[derive(Clone)]
pub struct World { pub kind: Kind, pub counter_on: bool, pub id_len: u8, pub hm: Hm, pub preload: Vec<Passkey> }

#[derive(Clone, Copy, Debug)]
pub struct UvState { pub presence_enabled: bool, pub verification: Option<bool>, pub answer: Result<(bool, bool), u8> }
impl UvState {
    pub fn ok() -> Self { UvState { presence_enabled: true, verification: Some(true), answer: Ok((true, true)) } }
    pub fn enc(&self) -> String {
        format!("{}{}:{}", self.presence_enabled as u8, match self.verification { None => 'n', Some(false) => 'f', Some(true) => 't' },
            match self.answer { Ok((p, v)) => format!("{}{}", p as u8, v as u8), Err(c) => format!("E{}", c) })
    }
}

/// user validation whose configuration the harness can change between operations
pub struct SharedUv { pub st: Arc<Mutex<UvState>>, pub log: Log, pub yields: bool }
#[async_trait::async_trait]
impl passkey_authenticator::UserValidationMethod for SharedUv {
    type PasskeyItem = Passkey;
    async fn check_user<'a>(&self, credential: Option<&'a Passkey>, presence: bool, verification: bool) -> Result<passkey_authenticator::UserCheck, passkey_types::ctap2::Ctap2Error> {
        if self.yields { yield_once().await; }
        detail(|| format!("uv cred={:?} up={} uv={}", credential.map(|c| (detail_id(&c.credential_id), c.rp_id.clone(), c.user_handle.clone(), c.counter)), presence, verification));
        push(&self.log, format!("uv:{}:{}:{}", credential.map(|c| hexs(&c.credential_id)).unwrap_or("N".into()), presence as u8, verification as u8));
        match self.st.lock().unwrap().answer {
            Ok((p, v)) => Ok(passkey_authenticator::UserCheck { presence: p, verification: v }),
            Err(c) => Err(passkey_types::ctap2::Ctap2Error::try_from(c).unwrap_or(passkey_types::ctap2::Ctap2Error::OperationDenied)),
        }
    }
    fn is_presence_enabled(&self) -> bool { self.st.lock().unwrap().presence_enabled }
    fn is_verification_enabled(&self) -> Option<bool> { self.st.lock().unwrap().verification }
}

// ---------------------------------------------------------------- stores

pub trait Inner: CredentialStore<PasskeyItem = Passkey> + Send + Sync {
    fn all(&self) -> Vec<Passkey>;
    fn put(&mut self, p: Passkey);
    /// shared lock wrappers: take the lock exclusively, as another user of the same store would; `None` for stores that are not shared
    fn hold(&self) -> Option<Box<dyn std::any::Any>> { None }
    /// ... as a reader would (a shared guard, where the wrapper has one): lookups go on, writers wait
    fn hold_shared(&self) -> Option<Box<dyn std::any::Any>> { self.hold() }
}
impl Inner for MemoryStore {
    fn all(&self) -> Vec<Passkey> { self.values().cloned().collect() }
    fn put(&mut self, p: Passkey) { self.insert(p.credential_id.clone().into(), p); }
}
impl Inner for Option<Passkey> {
    fn all(&self) -> Vec<Passkey> { self.iter().cloned().collect() }
    fn put(&mut self, p: Passkey) { *self = Some(p); }
}
impl Inner for RefStore {
    fn all(&self) -> Vec<Passkey> { self.items.clone() }
    fn put(&mut self, p: Passkey) { self.items.push(p); }
}
// the library's four lock wrappers, around any store of the harness
impl<S: Inner + Clone + 'static> Inner for Arc<tokio::sync::Mutex<S>> {
    fn all(&self) -> Vec<Passkey> { self.try_lock().unwrap().all() }
    fn put(&mut self, p: Passkey) { self.try_lock().unwrap().put(p); }
    fn hold(&self) -> Option<Box<dyn std::any::Any>> { self.clone().try_lock_owned().ok().map(|g| Box::new(g) as Box<dyn std::any::Any>) }
}
impl<S: Inner + Clone + 'static> Inner for Arc<tokio::sync::RwLock<S>> {
    fn all(&self) -> Vec<Passkey> { self.try_read().unwrap().all() }
    fn put(&mut self, p: Passkey) { self.try_write().unwrap().put(p); }
    fn hold(&self) -> Option<Box<dyn std::any::Any>> { self.clone().try_write_owned().ok().map(|g| Box::new(g) as Box<dyn std::any::Any>) }
    fn hold_shared(&self) -> Option<Box<dyn std::any::Any>> { self.clone().try_read_owned().ok().map(|g| Box::new(g) as Box<dyn std::any::Any>) }
}
impl<S: Inner + Clone> Inner for tokio::sync::Mutex<S> {
    fn all(&self) -> Vec<Passkey> { self.try_lock().unwrap().all() }
    fn put(&mut self, p: Passkey) { self.try_lock().unwrap().put(p); }
}
impl<S: Inner + Clone> Inner for tokio::sync::RwLock<S> {
    fn all(&self) -> Vec<Passkey> { self.try_read().unwrap().all() }
    fn put(&mut self, p: Passkey) { self.try_write().unwrap().put(p); }
}
pub fn d_full_pub() -> DiscoverabilitySupport { DiscoverabilitySupport::Full }
pub fn d_non_pub() -> DiscoverabilitySupport { DiscoverabilitySupport::OnlyNonDiscoverable }
pub fn d_forced_pub() -> DiscoverabilitySupport { DiscoverabilitySupport::ForcedDiscoverable }
pub fn hm_cfg(h: Hm) -> Option<HmacSecretConfig> { h.cfg() }
fn d_full() -> DiscoverabilitySupport { DiscoverabilitySupport::Full }
fn d_non() -> DiscoverabilitySupport { DiscoverabilitySupport::OnlyNonDiscoverable }
fn d_forced() -> DiscoverabilitySupport { DiscoverabilitySupport::ForcedDiscoverable }

// ---------------------------------------------------------------- passkeys and keys

pub fn key_parts(p: &Passkey) -> (Vec<u8>, Vec<u8>, Vec<u8>) {
    let mut d = vec![]; let mut x = vec![]; let mut y = vec![];
    for (k, v) in &p.key.params {
        if let coset::Label::Int(i) = k {
            let b = v.as_bytes().cloned().unwrap_or_default();
            match *i { -4 => d = b, -2 => x = b, -3 => y = b, _ => {} }
        }
    }
    (d, x, y)
}
pub fn new_key(ctx: &mut Ctx) -> (Vec<u8>, Vec<u8>, Vec<u8>) {
    loop {
        let d = ctx.rng.bytes(32);
        if let Ok(sk) = p256::SecretKey::from_slice(&d) {
            let pt = p256::ecdsa::SigningKey::from(&sk).verifying_key().to_encoded_point(false);
            return (d, pt.x().unwrap().to_vec(), pt.y().unwrap().to_vec());
        }
    }
}
pub fn make_passkey(ctx: &mut Ctx, id: Vec<u8>, rp: &str, uh: Option<Vec<u8>>, ctr: Option<u32>, hmac: Option<(Vec<u8>, Option<Vec<u8>>)>) -> Passkey {
    let (d, x, y) = new_key(ctx);
    let mut key = CoseKeyBuilder::new_ec2_priv_key(iana::EllipticCurve::P_256, x, y, d).algorithm(iana::Algorithm::ES256).build();
    // an imported key: the order of a COSE map's members carries no meaning (a third of the keys: d first / reversed)
    match id.iter().fold(0u8, |a, b| a.wrapping_add(*b)) % 6 { 0 => key.params.reverse(), 1 => { let n = key.params.len(); key.params.rotate_left(n - 1); } _ => {} }
    Passkey { key,
        credential_id: id.into(), rp_id: rp.to_string(), user_handle: uh.map(Into::into), counter: ctr,
        extensions: CredentialExtensions { hmac_secret: hmac.map(|(a, b)| StoredHmacSecret { cred_with_uv: a, cred_without_uv: b }) } }
}
/// a stored credential whose private scalar has a zero leading octet and is stored without it (31 bytes), as an
/// integer-minded exporter would write it
pub fn make_passkey_short_d(ctx: &mut Ctx, id: Vec<u8>, rp: &str, uh: Option<Vec<u8>>, ctr: Option<u32>) -> Passkey {
    loop {
        let mut d = ctx.rng.bytes(32); d[0] = 0;
        if let Ok(sk) = p256::SecretKey::from_slice(&d) {
            let pt = p256::ecdsa::SigningKey::from(&sk).verifying_key().to_encoded_point(false);
            let (x, y) = (pt.x().unwrap().to_vec(), pt.y().unwrap().to_vec());
            return Passkey { key: CoseKeyBuilder::new_ec2_priv_key(iana::EllipticCurve::P_256, x, y, d[1..].to_vec()).algorithm(iana::Algorithm::ES256).build(),
                credential_id: id.into(), rp_id: rp.to_string(), user_handle: uh.map(Into::into), counter: ctr, extensions: CredentialExtensions { hmac_secret: None } };
        }
    }
}
pub fn passkey_line(p: &Passkey) -> String {
    let (d, x, y) = key_parts(p);
    let hm = match &p.extensions.hmac_secret { None => "N".to_string(), Some(h) => format!("{}+{}", hexf(&h.cred_with_uv), opt_hex(h.cred_without_uv.as_deref())) };
    format!("{} {} {} {} {} {} {} {}", hexf(&p.credential_id), hexf(p.rp_id.as_bytes()), opt_hex(p.user_handle.as_deref().map(|v| &v[..])), opt_num(p.counter), hexf(&d), hexf(&x), hexf(&y), hm)
}
pub fn snap_pub(ps: &[Passkey]) -> String { snap(ps) }
fn snap(ps: &[Passkey]) -> String {
    let mut v: Vec<String> = ps.iter().map(|p| {
        let (_, x, _) = key_parts(p);
        let hm = match &p.extensions.hmac_secret { None => "N".to_string(), Some(h) => format!("{}+{}", hexf(&h.cred_with_uv), opt_hex(h.cred_without_uv.as_deref())) };
        format!("{},{},{},{},{},{}", hexf(&p.credential_id), hexf(p.rp_id.as_bytes()), opt_hex(p.user_handle.as_deref().map(|v| &v[..])), opt_num(p.counter), hexf(&x), hm)
    }).collect();
    v.sort();
    if v.is_empty() { "EMPTY".into() } else { v.join(";") }
}

// ---------------------------------------------------------------- requests

#[derive(Clone, Debug)]
pub struct PrfV { pub first: [u8; 32], pub second: Option<[u8; 32]> }
#[derive(Clone, Debug, Default)]
pub struct PrfI { pub eval: Option<PrfV>, pub by_cred: Option<Vec<(Vec<u8>, PrfV)>> }
fn prfv_s(v: &PrfV) -> String { format!("{}+{}", hexf(&v.first), v.second.map(|s| hexf(&s)).unwrap_or("N".into())) }
fn prfi_s(p: &Option<PrfI>) -> String {
    match p { None => "N".into(), Some(i) => format!("{}~{}", i.eval.as_ref().map(prfv_s).unwrap_or("N".into()),
        match &i.by_cred { None => "N".to_string(), Some(l) if l.is_empty() => "E".to_string(), Some(l) => l.iter().map(|(id, v)| format!("{}={}", hexf(id), prfv_s(v))).collect::<Vec<_>>().join("|") }) }
}
fn prfi_real(p: &PrfI) -> AuthenticatorPrfInputs {
    let conv = |v: &PrfV| AuthenticatorPrfValues { first: v.first, second: v.second };
    AuthenticatorPrfInputs { eval: p.eval.as_ref().map(conv), eval_by_credential: p.by_cred.as_ref().map(|l| l.iter().map(|(id, v)| (id.clone().into(), conv(v))).collect::<HashMap<_, _>>()) }
}

#[derive(Clone, Debug)]
pub struct MakeOp { pub cdh: Vec<u8>, pub rp: String, pub user: Vec<u8>, pub algs: Vec<i64>, pub exclude: Option<Vec<Vec<u8>>>, pub unk: Vec<usize>,
    pub ext: Option<(Option<bool>, bool, Option<PrfI>)>, pub rk: bool, pub up: bool, pub uv: bool, pub pin: bool }
#[derive(Clone, Debug)]
pub struct GetOp { pub rp: String, pub cdh: Vec<u8>, pub allow: Option<Vec<Vec<u8>>>, pub unk: Vec<usize>, pub ext: Option<(bool, Option<PrfI>)>, pub rk: bool, pub up: bool, pub uv: bool, pub pin: bool }

/// ids of a descriptor list; an entry typed `Unknown` (index in `unk`) is prefixed with `u`
fn ids_s(l: &Option<Vec<Vec<u8>>>, unk: &[usize]) -> String { match l { None => "N".into(), Some(v) if v.is_empty() => "E".into(), Some(v) => v.iter().enumerate().map(|(k, i)| format!("{}{}", if unk.contains(&k) { "u" } else { "" }, hexf(i))).collect::<Vec<_>>().join(",") } }
fn descs(l: &Option<Vec<Vec<u8>>>, unk: &[usize]) -> Option<Vec<PublicKeyCredentialDescriptor>> {
    l.as_ref().map(|v| v.iter().enumerate().map(|(k, i)| PublicKeyCredentialDescriptor { ty: if unk.contains(&k) { PublicKeyCredentialType::Unknown } else { PublicKeyCredentialType::PublicKey }, id: i.clone().into(), transports: dont_care_transports(i) }).collect())
}
/// members the authenticator does not look at, varied deterministically with the credential id: none, empty, one, several hints
pub fn dont_care_transports(id: &[u8]) -> Option<Vec<webauthn::AuthenticatorTransport>> {
    use webauthn::AuthenticatorTransport as T;
    match id.iter().fold(0u8, |a, b| a.wrapping_add(*b)) % 6 { 0 | 1 => None, 2 => Some(vec![]), 3 => Some(vec![T::Usb]), 4 => Some(vec![T::Internal, T::Hybrid]), _ => Some(vec![T::Nfc, T::Ble, T::Usb]) }
}
fn alg_of(a: i64) -> iana::Algorithm { use coset::iana::EnumI64; iana::Algorithm::from_i64(a).unwrap_or(iana::Algorithm::RS256) }
pub fn faults_pub(f: &[Option<u8>]) -> String { faults_s(f) }
fn faults_s(f: &[Option<u8>]) -> String {
    let v: Vec<String> = f.iter().enumerate().filter_map(|(i, c)| c.map(|c| format!("{}={}", i, c))).collect();
    if v.is_empty() { "-".into() } else { v.join(",") }
}

impl MakeOp {
    pub fn real_pub(&self) -> make_credential::Request { self.real(Some(hmac_input())) }
    pub fn enc(&self) -> String {
        let ext = match &self.ext { None => "N".to_string(), Some((hs, mc, prf)) => format!("hs:{}/mc:{}/prf:{}", hs.map(|b| (b as u8).to_string()).unwrap_or("N".into()), *mc as u8, prfi_s(prf)) };
        format!("{} {} {} {} {} {} {}{}{}{}", hexf(&self.cdh), hexf(self.rp.as_bytes()), hexf(&self.user),
            if self.algs.is_empty() { "-".to_string() } else { self.algs.iter().map(|a| a.to_string()).collect::<Vec<_>>().join(",") },
            ids_s(&self.exclude, &self.unk), ext, self.rk as u8, self.up as u8, self.uv as u8, self.pin as u8)
    }
    fn real(&self, ctx_hmac_input: Option<passkey_types::ctap2::extensions::HmacGetSecretInput>) -> make_credential::Request {
        make_credential::Request {
            client_data_hash: self.cdh.clone().into(),
            rp: make_credential::PublicKeyCredentialRpEntity { id: self.rp.clone(), name: match self.cdh.first().copied().unwrap_or(0) % 3 { 0 => None, 1 => Some("rp".into()), _ => Some(format!("R\u{e9}lying \u{1f600} {}", "p".repeat(70))) } },
            // account names of ordinary and of unusual length (beyond 64 bytes, multi-byte characters), derived from the user id
            user: webauthn::PublicKeyCredentialUserEntity { id: self.user.clone().into(),
                display_name: if self.user.len() % 3 == 0 { "d".into() } else { format!("D\u{e9}{}", "\u{20ac}".repeat(20 + self.user.len())) },
                name: if self.user.len() % 3 == 1 { "n".into() } else { format!("account-{}-{}@example.com", hexf(&self.user), "x".repeat(50)) } },
            pub_key_cred_params: self.algs.iter().map(|a| PublicKeyCredentialParameters { ty: PublicKeyCredentialType::PublicKey, alg: alg_of(*a) }).collect(),
            exclude_list: descs(&self.exclude, &self.unk),
            extensions: self.ext.as_ref().map(|(hs, mc, prf)| make_credential::ExtensionInputs { hmac_secret: *hs, hmac_secret_mc: if *mc { ctx_hmac_input.clone() } else { None }, prf: prf.as_ref().map(prfi_real) }),
            options: make_credential::Options { rk: self.rk, up: self.up, uv: self.uv },
            // a pin protocol number without pinAuth is not looked at
            pin_auth: if self.pin { Some(match self.cdh.first().copied().unwrap_or(0) % 3 { 0 => vec![], 1 => vec![1u8; 16], _ => self.cdh.clone() }.into()) } else { None }, pin_protocol: match self.cdh.last().copied().unwrap_or(0) % 3 { 0 => None, 1 => Some(1), _ => Some(2) },
        }
    }
}
impl GetOp {
    pub fn real_pub(&self) -> get_assertion::Request { self.real(Some(hmac_input())) }
    pub fn enc(&self) -> String {
        let ext = match &self.ext { None => "N".to_string(), Some((hs, prf)) => format!("hs:{}/prf:{}", *hs as u8, prfi_s(prf)) };
        format!("{} {} {} {} {}{}{}{}", hexf(self.rp.as_bytes()), hexf(&self.cdh), ids_s(&self.allow, &self.unk), ext, self.rk as u8, self.up as u8, self.uv as u8, self.pin as u8)
    }
    fn real(&self, hi: Option<passkey_types::ctap2::extensions::HmacGetSecretInput>) -> get_assertion::Request {
        get_assertion::Request { rp_id: self.rp.clone(), client_data_hash: self.cdh.clone().into(), allow_list: descs(&self.allow, &self.unk),
            extensions: self.ext.as_ref().map(|(hs, prf)| get_assertion::ExtensionInputs { hmac_secret: if *hs { hi.clone() } else { None }, prf: prf.as_ref().map(prfi_real) }),
            options: make_credential::Options { rk: self.rk, up: self.up, uv: self.uv },
            pin_auth: if self.pin { Some(match self.cdh.first().copied().unwrap_or(0) % 3 { 0 => vec![], 1 => vec![1u8; 16], _ => self.cdh.clone() }.into()) } else { None }, pin_protocol: match self.cdh.last().copied().unwrap_or(0) % 3 { 0 => None, 1 => Some(1), _ => Some(2) } }
    }
}
/// a request as it arrives from a platform: encoded to CBOR and decoded again, with the option members that have
/// their default value left out (rk = false, uv = false, up = true), and - when nothing is left - the options map too
pub fn through_cbor<T: serde::Serialize + serde::de::DeserializeOwned>(req: T, drop_default_options: bool) -> T {
    use ciborium::value::Value;
    let mut buf = vec![];
    if ciborium::ser::into_writer(&req, &mut buf).is_err() { return req; }
    let Ok(mut v) = ciborium::de::from_reader::<Value, _>(buf.as_slice()) else { return req; };
    if drop_default_options {
        if let Value::Map(entries) = &mut v {
            let mut drop_map = false;
            for (k, val) in entries.iter_mut() {
                let is_options = matches!(k, Value::Integer(i) if i128::from(*i) == 7 || i128::from(*i) == 5) && matches!(val, Value::Map(m) if m.iter().all(|(k, _)| matches!(k, Value::Text(t) if t == "rk" || t == "up" || t == "uv")));
                if is_options {
                    if let Value::Map(m) = val {
                        m.retain(|(k, b)| match (k, b) { (Value::Text(t), Value::Bool(b)) => !((t == "up" && *b) || (t != "up" && !*b)), _ => true });
                        if m.is_empty() { drop_map = true; }
                    }
                }
            }
            if drop_map { entries.retain(|(k, val)| !(matches!(k, Value::Integer(i) if i128::from(*i) == 7 || i128::from(*i) == 5) && matches!(val, Value::Map(m) if m.is_empty()))); }
        }
    }
    let mut out = vec![];
    if ciborium::ser::into_writer(&v, &mut out).is_err() { return req; }
    ciborium::de::from_reader::<T, _>(out.as_slice()).unwrap_or(req)
}

fn hmac_input() -> passkey_types::ctap2::extensions::HmacGetSecretInput {
    passkey_types::ctap2::extensions::HmacGetSecretInput { key_agreement: ciborium::value::Value::Null, salt_enc: vec![0u8; 32].into(), salt_auth: vec![0u8; 16].into(), pin_uv_auth_protocol: None }
}

// ---------------------------------------------------------------- running a case

pub enum Op { Make(MakeOp), Get(GetOp), Info,
    /// a U2F registration on the same authenticator (the credential it stores is then used through CTAP2)
    U2fReg { app: Vec<u8>, chal: Vec<u8>, handle: Vec<u8> } }

/// C18: run the operations through `<Authenticator as Ctap2Api>` instead of the direct methods
pub static VIA_TRAIT: std::sync::atomic::AtomicBool = std::sync::atomic::AtomicBool::new(false);
/// write `ANNOUNCE <op>` to stderr before running an operation (a parent process reads it if this one dies)
pub static ANNOUNCE: std::sync::atomic::AtomicBool = std::sync::atomic::AtomicBool::new(false);
fn via_trait() -> bool { VIA_TRAIT.load(std::sync::atomic::Ordering::Relaxed) }
fn announce(op: &str) { if ANNOUNCE.load(std::sync::atomic::Ordering::Relaxed) { eprintln!("ANNOUNCE {}", op); } }
pub struct Step { pub op: Op, pub uv: UvState, pub faults: Vec<Option<u8>>, /// `Some(k)`: poll the future at most k times, then drop it (cancellation)
    pub cancel_after: Option<usize>,
    /// k > 0 on a shared lock-wrapper store: another holder keeps the store locked while the ceremony is polled k times, then lets go
    pub hold_polls: usize,
    /// hold the lock as a reader instead (RwLock wrappers)
    pub hold_shared: bool }

fn sc(e: StatusCode) -> u8 { e.into() }

fn prf_make_s(o: &Option<make_credential::UnsignedExtensionOutputs>) -> String {
    match o.as_ref().and_then(|u| u.prf.as_ref()) { None => "N".into(), Some(p) => format!("{}+{}", p.enabled as u8, match &p.results { None => "N".to_string(), Some(r) => format!("{}+{}", hexf(&r.first), r.second.map(|s| hexf(&s)).unwrap_or("N".into())) }) }
}
fn prf_get_s(o: &Option<get_assertion::UnsignedExtensionOutputs>) -> String {
    match o.as_ref().and_then(|u| u.prf.as_ref()) { None => "N".into(), Some(p) => format!("{}+{}", hexf(&p.results.first), p.results.second.map(|s| hexf(&s)).unwrap_or("N".into())) }
}

fn run_generic<S: Inner + 'static>(ctx: &mut Ctx, prop: &str, w: &World, inner: S, steps: &[Step], tw: &str) {
    let log = new_log();
    let uvst = Arc::new(Mutex::new(UvState::ok()));
    let yields = steps.iter().any(|s| s.cancel_after.is_some());
    let mut store = RecStore::new(inner, log.clone());
    store.yields = yields;
    for p in &w.preload { store.inner.put(p.clone()); }
    let mut auth = Authenticator::new(Aaguid::from(crate::util::AAGUID), store, SharedUv { st: uvst.clone(), log: log.clone(), yields });
    auth.set_make_credentials_with_signature_counter(w.counter_on);
    auth.set_make_credential_id_length(CredentialIdLength::from(w.id_len));
    if let Some(c) = w.hm.cfg() { auth = auth.hmac_secret(c); }
    // the builder for the transport list (here: the default list again) keeps every other setting
    if w.id_len % 2 == 0 { auth = auth.transports(match (w.id_len / 2) % 3 { 0 => vec![webauthn::AuthenticatorTransport::Internal, webauthn::AuthenticatorTransport::Hybrid], 1 => vec![], _ => vec![webauthn::AuthenticatorTransport::Usb] }); }
    ctx.line(&format!("au.reset {} {} {} {} {}", prop, w.kind.name(), w.counter_on as u8, w.id_len, w.hm.name()), "");
    for p in &w.preload { ctx.line(&format!("au.load {}", passkey_line(p)), ""); }
    let mut last_id: Option<Vec<u8>> = None;
    // ids saved in this case, in order; a list entry "@<k>" names the k-th of them (modulo their number)
    let mut saved_ids: Vec<Vec<u8>> = vec![];
    let resolve = |l: &Option<Vec<Vec<u8>>>, saved: &Vec<Vec<u8>>| -> Option<Vec<Vec<u8>>> {
        l.as_ref().map(|v| v.iter().filter_map(|e| {
            if e.len() >= 2 && e[0] == b'@' && e[1..].iter().all(|c| c.is_ascii_digit()) {
                let k: usize = std::str::from_utf8(&e[1..]).unwrap().parse().unwrap_or(0);
                if saved.is_empty() { None } else { Some(saved[k % saved.len()].clone()) }
            } else { Some(e.clone()) }
        }).collect())
    };
    for st in steps {
        *uvst.lock().unwrap() = st.uv;
        auth.store_mut().faults = st.faults.clone();
        *auth.store_mut().calls.lock().unwrap() = 0;
        *auth.store_mut().last_saved.lock().unwrap() = None;
        log.lock().unwrap().clear();
        let cancel = st.cancel_after.map(|k| format!(" cancel={}", k)).unwrap_or_default();
        match &st.op {
            Op::Make(m0) => {
                let mut m1 = m0.clone(); m1.exclude = resolve(&m0.exclude, &saved_ids);
                let m = &m1;
                // half of the requests take the way a platform's request takes: through CBOR, defaults left out
                let req = { let r = m.real(Some(hmac_input())); if m.cdh.get(1).copied().unwrap_or(0) % 2 == 0 { through_cbor(r, true) } else { r } };
                announce(&format!("au.make {} {} {} N{}{}", m.enc(), st.uv.enc(), faults_s(&st.faults), cancel, tw));
                let res = guarded(|| {
                    match st.cancel_after {
                        // the trait is named by path: importing it would change what `auth.make_credential` resolves to
                        None if st.hold_polls > 0 => {
                            let guard = if st.hold_shared { auth.store().inner.hold_shared() } else { auth.store().inner.hold() };
                            let mut fut = Box::pin(auth.make_credential(req));
                            match poll_n(fut.as_mut(), st.hold_polls) { Some(v) => Some(v), None => { drop(guard); Some(block_on(fut)) } }
                        }
                        None if via_trait() => Some(block_on(passkey_authenticator::Ctap2Api::make_credential(&mut auth, req))),
                        None => Some(block_on(auth.make_credential(req))),
                        Some(k) => { let mut fut = Box::pin(auth.make_credential(req)); poll_n(fut.as_mut(), k) }
                    }
                });
                if let Some(p) = auth.store().last_saved.lock().unwrap().clone() { last_id = Some(p.credential_id.to_vec()); saved_ids.push(p.credential_id.to_vec()); }
                let draws = auth.store().last_saved.lock().unwrap().clone().map(|p| {
                    let (d, x, y) = key_parts(&p);
                    let (s1, s2) = match &p.extensions.hmac_secret { Some(h) => (hexf(&h.cred_with_uv), opt_hex(h.cred_without_uv.as_deref())), None => ("N".into(), "N".into()) };
                    format!("{}:{}:{}:{}:{}:{}", hexf(&p.credential_id), hexf(&d), hexf(&x), hexf(&y), s1, s2)
                }).unwrap_or("N".into());
                detail(|| match &res { None => "make panic".to_string(), Some(None) => "make cancelled".to_string(), Some(Some(Err(e))) => format!("make err {:?}", e),
                    Some(Some(Ok(resp))) => format!("make ok flags={:?} ctr={:?} aaguid={:?} id_len={:?} ext={:?} fmt={:?} unsigned={}", resp.auth_data.flags, resp.auth_data.counter,
                        resp.auth_data.attested_credential_data.as_ref().map(|a| a.aaguid.clone()), resp.auth_data.attested_credential_data.as_ref().map(|a| a.credential_id().len()),
                        resp.auth_data.extensions.is_some(), resp.fmt, resp.unsigned_extension_outputs.is_some()) });
                let r = match res { None => "panic".to_string(), Some(None) => "cancelled".to_string(),
                    Some(Some(Ok(resp))) => format!("ok:{}:{}", hexf(&resp.auth_data.to_vec()), prf_make_s(&resp.unsigned_extension_outputs)),
                    Some(Some(Err(e))) => format!("err:{}", sc(e)) };
                let ev = log.lock().unwrap().join(";");
                let obs = format!("res={} ev={} store={}", r, if ev.is_empty() { "-".into() } else { ev }, snap(&auth.store().inner.all()));
                ctx.stat(&format!("au.make.{}", r.split(':').next().unwrap()));
                ctx.line(&format!("au.make {} {} {} {}{}{}", m.enc(), st.uv.enc(), faults_s(&st.faults), draws, cancel, tw), &obs);
            }
            Op::Get(g0) => {
                // an allow list of the single entry "@last" names the credential saved last in this case
                let mut g1 = g0.clone();
                if g1.allow.as_ref().map(|v| v.len() == 1 && v[0] == b"@last") == Some(true) {
                    if let Some(id) = &last_id { g1.allow = Some(vec![id.clone()]); }
                }
                g1.allow = resolve(&g1.allow, &saved_ids);
                let g = &g1;
                let req = { let r = g.real(Some(hmac_input())); if g.cdh.get(1).copied().unwrap_or(0) % 2 == 0 { through_cbor(r, true) } else { r } };
                announce(&format!("au.get {} {} {}{}{}", g.enc(), st.uv.enc(), faults_s(&st.faults), cancel, tw));
                let res = guarded(|| {
                    match st.cancel_after {
                        // `&mut auth` coerces to `&auth` if the trait method takes `&self`
                        None if st.hold_polls > 0 => {
                            let guard = if st.hold_shared { auth.store().inner.hold_shared() } else { auth.store().inner.hold() };
                            let mut fut = Box::pin(auth.get_assertion(req));
                            match poll_n(fut.as_mut(), st.hold_polls) { Some(v) => Some(v), None => { drop(guard); Some(block_on(fut)) } }
                        }
                        None if via_trait() => Some(block_on(passkey_authenticator::Ctap2Api::get_assertion(&mut auth, req))),
                        None => Some(block_on(auth.get_assertion(req))),
                        Some(k) => { let mut fut = Box::pin(auth.get_assertion(req)); poll_n(fut.as_mut(), k) }
                    }
                });
                detail(|| match &res { None => "get panic".to_string(), Some(None) => "get cancelled".to_string(), Some(Some(Err(e))) => format!("get err {:?}", e),
                    Some(Some(Ok(resp))) => format!("get ok cred={:?} flags={:?} ctr={:?} user={:?} n={:?} unsigned={}", resp.credential.as_ref().map(|c| (c.ty, detail_id(&c.id), c.transports.clone())),
                        resp.auth_data.flags, resp.auth_data.counter, resp.user.as_ref().map(|u| (u.id.clone(), u.name.clone(), u.display_name.clone())), resp.number_of_credentials, resp.unsigned_extension_outputs.is_some()) });
                let r = match res { None => "panic".to_string(), Some(None) => "cancelled".to_string(),
                    Some(Some(Ok(resp))) => format!("ok:{}:{}:{}:{}:{}", resp.credential.as_ref().map(|c| hexf(&c.id)).unwrap_or("N".into()), hexf(&resp.auth_data.to_vec()),
                        resp.user.as_ref().map(|u| hexf(&u.id)).unwrap_or("N".into()), prf_get_s(&resp.unsigned_extension_outputs), hexf(&resp.signature)),
                    Some(Some(Err(e))) => format!("err:{}", sc(e)) };
                let ev = log.lock().unwrap().join(";");
                let obs = format!("res={} ev={} store={}", r, if ev.is_empty() { "-".into() } else { ev }, snap(&auth.store().inner.all()));
                ctx.stat(&format!("au.get.{}", r.split(':').next().unwrap()));
                ctx.line(&format!("au.get {} {} {}{}{}", g.enc(), st.uv.enc(), faults_s(&st.faults), cancel, tw), &obs);
            }
            Op::U2fReg { app, chal, handle } => {
                use passkey_authenticator::U2fApi;
                let mut a32 = [0u8; 32]; a32.copy_from_slice(&app[..32]); let mut c32 = [0u8; 32]; c32.copy_from_slice(&chal[..32]);
                let req = passkey_types::u2f::RegisterRequest { challenge: c32, application: a32 };
                let res = guarded(|| block_on(U2fApi::register(&mut auth, req, handle)));
                let draws = auth.store().last_saved.lock().unwrap().clone().map(|p: Passkey| { let (d, x, y) = key_parts(&p); format!("{}:{}:{}", hexf(&d), hexf(&x), hexf(&y)) }).unwrap_or("N".into());
                if let Some(p) = auth.store().last_saved.lock().unwrap().clone() { last_id = Some(p.credential_id.to_vec()); saved_ids.push(p.credential_id.to_vec()); }
                let rs = match res { None => "panic".to_string(), Some(Err(e)) => format!("err:{:?}", e),
                    Some(Ok(r)) => { let (x, y, h, c, sg) = (r.public_key.x.to_vec(), r.public_key.y.to_vec(), r.key_handle.clone(), r.attestation_certificate.clone(), r.signature.clone());
                        format!("ok:{}:{}:{}:{}:{}:{}", hexf(&x), hexf(&y), hexf(&h), hexf(&c), hexf(&sg), hexf(&r.encode())) } };
                ctx.stat(&format!("u2f.reg.{}", rs.split(':').next().unwrap()));
                ctx.line(&format!("u2f.reg {} {} {} {} {}", hexf(app), hexf(chal), hexf(handle), draws, faults_s(&st.faults)), &format!("res={} store={}", rs, snap(&auth.store().inner.all())));
            }
            Op::Info => {
                announce(&format!("au.info {}", st.uv.enc()));
                let res = guarded(|| if via_trait() { block_on(passkey_authenticator::Ctap2Api::get_info(&auth)) } else { block_on(auth.get_info()) });
                let r = match &res { None => "panic".to_string(), Some(i) => {
                    let o = i.options.as_ref();
                    format!("ok:{}:{}:{}:{}:{}", i.extensions.as_ref().map(|e| e.iter().any(|x| matches!(x, passkey_types::ctap2::get_info::Extension::Prf)) as u8).unwrap_or(0),
                        o.map(|o| o.rk as u8).unwrap_or(9), o.map(|o| match o.uv { None => 'n', Some(false) => 'f', Some(true) => 't' }).unwrap_or('?'), o.map(|o| o.up as u8).unwrap_or(9), hexf(&i.aaguid.0)) } };
                detail(|| match &res { None => "info panic".to_string(), Some(i) => format!("info {:?}", i) });
                let ev = log.lock().unwrap().join(";");
                ctx.stat("au.info");
                ctx.line(&format!("au.info {}", st.uv.enc()), &format!("res={} ev={} store={}", r, if ev.is_empty() { "-".into() } else { ev }, snap(&auth.store().inner.all())));
            }
        }
    }
    ctx.line("au.end", "");
    ctx.stat("au.cases");
}

pub fn run_case(ctx: &mut Ctx, prop: &str, w: &World, steps: &[Step]) { run_case_tw(ctx, prop, w, steps, "") }

/// `twin`: a key pairing this case with the case that differs only in the store content (C04)
pub fn run_case_tw(ctx: &mut Ctx, prop: &str, w: &World, steps: &[Step], twin: &str) {
    let tw = if twin.is_empty() { String::new() } else { format!(" tw={}", twin) };
    match w.kind {
        Kind::Map => run_generic(ctx, prop, w, MemoryStore::new(), steps, &tw),
        Kind::Slot => run_generic(ctx, prop, w, None::<Passkey>, steps, &tw),
        Kind::RefFull => run_generic(ctx, prop, w, RefStore::new(d_full), steps, &tw),
        Kind::RefNonDisc => run_generic(ctx, prop, w, RefStore::new(d_non), steps, &tw),
        Kind::RefForced => run_generic(ctx, prop, w, RefStore::new(d_forced), steps, &tw),
        Kind::MapArcMutex => run_generic(ctx, prop, w, Arc::new(tokio::sync::Mutex::new(MemoryStore::new())), steps, &tw),
        Kind::MapArcRwLock => run_generic(ctx, prop, w, Arc::new(tokio::sync::RwLock::new(MemoryStore::new())), steps, &tw),
        Kind::SlotArcMutex => run_generic(ctx, prop, w, Arc::new(tokio::sync::Mutex::new(None::<Passkey>)), steps, &tw),
        Kind::SlotRwLock => run_generic(ctx, prop, w, tokio::sync::RwLock::new(None::<Passkey>), steps, &tw),
        Kind::MapMutex => run_generic(ctx, prop, w, tokio::sync::Mutex::new(MemoryStore::new()), steps, &tw),
        Kind::MapRwLock => run_generic(ctx, prop, w, tokio::sync::RwLock::new(MemoryStore::new()), steps, &tw),
        Kind::SlotArcRwLock => run_generic(ctx, prop, w, Arc::new(tokio::sync::RwLock::new(None::<Passkey>)), steps, &tw),
        Kind::SlotMutex => run_generic(ctx, prop, w, tokio::sync::Mutex::new(None::<Passkey>), steps, &tw),
        Kind::RefArcMutex => run_generic(ctx, prop, w, Arc::new(tokio::sync::Mutex::new(RefStore::new(d_full))), steps, &tw),
        Kind::RefArcRwLock => run_generic(ctx, prop, w, Arc::new(tokio::sync::RwLock::new(RefStore::new(d_full))), steps, &tw),
        Kind::RefMutex => run_generic(ctx, prop, w, tokio::sync::Mutex::new(RefStore::new(d_full)), steps, &tw),
        Kind::RefRwLock => run_generic(ctx, prop, w, tokio::sync::RwLock::new(RefStore::new(d_full)), steps, &tw),
        Kind::RefNonDiscArcMutex => run_generic(ctx, prop, w, Arc::new(tokio::sync::Mutex::new(RefStore::new(d_non))), steps, &tw),
        Kind::RefNonDiscArcRwLock => run_generic(ctx, prop, w, Arc::new(tokio::sync::RwLock::new(RefStore::new(d_non))), steps, &tw),
        Kind::RefNonDiscMutex => run_generic(ctx, prop, w, tokio::sync::Mutex::new(RefStore::new(d_non)), steps, &tw),
        Kind::RefNonDiscRwLock => run_generic(ctx, prop, w, tokio::sync::RwLock::new(RefStore::new(d_non)), steps, &tw),
        Kind::RefForcedArcMutex => run_generic(ctx, prop, w, Arc::new(tokio::sync::Mutex::new(RefStore::new(d_forced))), steps, &tw),
        Kind::RefForcedRwLock => run_generic(ctx, prop, w, tokio::sync::RwLock::new(RefStore::new(d_forced)), steps, &tw),
        Kind::RefFullEmptyOk => run_generic(ctx, prop, w, RefStore::new_empty_ok(d_full), steps, &tw),
    }
}

// ---------------------------------------------------------------- helpers for generators

pub fn simple_make(ctx: &mut Ctx, rp: &str) -> MakeOp {
    MakeOp { cdh: ctx.rng.bytes(32), rp: rp.to_string(), user: ctx.rng.bytes_in(1, 16), algs: vec![-7], exclude: None, unk: vec![], ext: None, rk: false, up: true, uv: true, pin: false }
}
pub fn simple_get(ctx: &mut Ctx, rp: &str) -> GetOp {
    GetOp { rp: rp.to_string(), cdh: ctx.rng.bytes(32), allow: None, unk: vec![], ext: None, rk: false, up: true, uv: true, pin: false }
}
pub fn step(op: Op) -> Step { Step { op, uv: UvState::ok(), faults: vec![], cancel_after: None, hold_polls: 0, hold_shared: false } }
