"""Regenerates MANIFEST.json from props.py (so the two never drift)."""
import json, os, sys
sys.path.insert(0, os.path.join(os.path.dirname(os.path.abspath(__file__)), ".."))
from verif import props as P

VERIF = os.path.abspath(os.path.join(os.path.dirname(__file__), "..", ".."))
ALL = ["C%02d" % i for i in range(1, 20)]

def main():
    checks = []
    for pid in ALL:
        if pid not in P.PROPS or not P.PROPS[pid].get("claimed", True):
            continue
        c = P.PROPS[pid]
        checks.append({
            "property_id": pid,
            "quick_cmd": "bin/check %s --tier quick" % pid,
            "thorough_cmd": "bin/check %s --tier thorough" % pid,
            "evidence_file": "/verif/evidence/%s.json" % pid,
            "engine": "lean4-proof+correspondence",
            "level_claimed": {"category": "proof", "text": c["level_text"], "design_ref": "DESIGN.md §5 " + pid},
            "level_note": c["level_note"],
            "technique": c.get("technique", "Lean 4 theorems about a hand-written executable model, tied to the Rust code by a differential correspondence harness"),
        })
    na = [{"property_id": pid, "reason": P.NOT_YET.get(pid, "check not built yet in this round; see DESIGN.md §8 order of construction")}
          for pid in ALL if pid not in [c["property_id"] for c in checks]]
    m = {
        "version": 1,
        "setup_cmd": "bin/setup",
        "hooks": {
            "guard": "--cfg passkey_rs_verif",
            "enable": "no hook is needed: every observation point is reachable through public APIs; the harness links the crates of /repo by path and is rebuilt by every check",
            "baseline_off_cmd": "cd /repo && cargo test --workspace --no-fail-fast --offline",
            "source_commits": [],
            "add_only": True,
        },
        "engines": [{"name": "lean4-proof+correspondence", "path": "/verif/lean, /verif/harness, /verif/lib/verif",
                     "serves_properties": [c["property_id"] for c in checks],
                     "kind_free_text": "Lean 4 model + Spec + theorems (kernel-checked, axiom-audited) per property; Rust harness runs the real crates on generated inputs; compiled Lean driver replays the same operations through the model and evaluates the executable Spec on the implementation's observations"}],
        "checks": checks,
        "not_applicable": na,
        "notes": "Every check rebuilds the harness against /repo's working tree (path dependencies) and re-checks the theorems. Known findings: /verif/known_findings.json.",
    }
    json.dump(m, open(os.path.join(VERIF, "MANIFEST.json"), "w"), indent=1)

if __name__ == "__main__":
    main()
