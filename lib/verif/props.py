"""Per-property configuration of the check runner."""

COMMON_TRUSTED = [
    "correspondence harness /verif/harness (differential testing of the hand-written model against the real crates; agreement is evidence on the explored inputs only)",
    "the Spec definitions in lean/PasskeyVerif/Spec (the formalisation of the property)",
    "rustc/cargo building the crates under test",
]

def tr_psl(log):
    """regenerate Generated/PslTable.lean and Generated/PslRules.lean from /repo/public-suffix"""
    import importlib.util, os
    here = os.path.dirname(os.path.abspath(__file__))
    spec = importlib.util.spec_from_file_location("psl_tr", os.path.join(here, "..", "..", "translate", "psl.py"))
    m = importlib.util.module_from_spec(spec)
    spec.loader.exec_module(m)
    info = m.main()
    log.write("translator psl: %s\n" % info)
    return info


def tr_flags(log):
    """regenerate Generated/Flags.lean from /repo/passkey-types/src/ctap2/flags.rs"""
    import importlib.util, os
    here = os.path.dirname(os.path.abspath(__file__))
    spec = importlib.util.spec_from_file_location("flags_tr", os.path.join(here, "..", "..", "translate", "flags.py"))
    m = importlib.util.module_from_spec(spec)
    spec.loader.exec_module(m)
    info = m.main()
    log.write("translator flags: %s\n" % info)
    return info


def tr_secrets(log):
    """regenerate Generated/Secrets.lean from passkey.rs, lib.rs, make_credential.rs"""
    import importlib.util, os
    here = os.path.dirname(os.path.abspath(__file__))
    spec = importlib.util.spec_from_file_location("secrets_tr", os.path.join(here, "..", "..", "translate", "secrets.py"))
    m = importlib.util.module_from_spec(spec)
    spec.loader.exec_module(m)
    info = m.main()
    log.write("translator secrets: %s\n" % info)
    return info


def tr_ctapapi(log):
    """regenerate Generated/CtapApi.lean from ctap2.rs and the three authenticator method files"""
    import importlib.util, os
    here = os.path.dirname(os.path.abspath(__file__))
    spec = importlib.util.spec_from_file_location("ctapapi_tr", os.path.join(here, "..", "..", "translate", "ctapapi.py"))
    m = importlib.util.module_from_spec(spec)
    spec.loader.exec_module(m)
    info = m.main()
    log.write("translator ctapapi: %s\n" % info)
    return info


def tr_decoders(log):
    """regenerate Generated/Decoders.lean from the deserialisation helpers, the U2F parsers and the COSE-key converter"""
    import importlib.util, os
    here = os.path.dirname(os.path.abspath(__file__))
    spec = importlib.util.spec_from_file_location("decoders_tr", os.path.join(here, "..", "..", "translate", "decoders.py"))
    m = importlib.util.module_from_spec(spec)
    spec.loader.exec_module(m)
    info = m.main()
    log.write("translator decoders: %s\n" % info)
    return info


def tr_webauthn(log):
    """regenerate Generated/WebauthnSchema.lean from the serde attributes of the WebAuthn option structs and enums"""
    import importlib.util, os
    here = os.path.dirname(os.path.abspath(__file__))
    spec = importlib.util.spec_from_file_location("webauthn_tr", os.path.join(here, "..", "..", "translate", "webauthn.py"))
    m = importlib.util.module_from_spec(spec)
    spec.loader.exec_module(m)
    info = m.main()
    log.write("translator webauthn: %s\n" % info)
    return info


def tr_hid(log):
    """regenerate Generated/Hid.lean (framing constants, command bytes) from passkey-transports/src/hid.rs"""
    import importlib.util, os
    here = os.path.dirname(os.path.abspath(__file__))
    spec = importlib.util.spec_from_file_location("hid_tr", os.path.join(here, "..", "..", "translate", "hid.py"))
    m = importlib.util.module_from_spec(spec)
    spec.loader.exec_module(m)
    info = m.main()
    log.write("translator hid: %s\n" % info)
    return info


def tr_ctap(log):
    """regenerate Generated/Ctap.lean from /repo/passkey-types/src/ctap2/*.rs"""
    import importlib.util, os
    here = os.path.dirname(os.path.abspath(__file__))
    spec = importlib.util.spec_from_file_location("ctap_tr", os.path.join(here, "..", "..", "translate", "ctap.py"))
    m = importlib.util.module_from_spec(spec)
    spec.loader.exec_module(m)
    info = m.main()
    log.write("translator ctap: %s\n" % info)
    return info


AUTH_TRUSTED = COMMON_TRUSTED + [
    "modelled by hand: Authenticator::{check_user, choose_algorithm, make_credential, get_assertion, get_info, make_extensions, get_extensions, make_hmac_secret, make_prf, get_prf}, calculate_hmac_secret, select_salts, CredentialIdLength::from, and the find/save/update/get_info behaviour of MemoryStore, Option<Passkey> and a reference store implementing the documented contract (Model/Authenticator.lean); each .await on the store or on user validation is an event of the trace",
    "environment as parameters: user-validation configuration and answer, store kind/content/fault schedule, random draws (credential id, key pair, hmac secrets) read back from the implementation; ECDSA signing is not computed (the model yields the signed message and the signing key; the signature bytes are observed)",
    "instrumented store / user-validation wrappers of the harness (env.rs, au.rs) are trusted to report calls truthfully",
    "SHA-256/HMAC by Base/Sha256.lean (oracle; only the digest length is proved), CBOR COSE key encoding by Base/Cbor.lean",
]

CLIENT_TRUSTED = AUTH_TRUSTED + [
    "modelled by hand: Client::{register, authenticate, map_rk, registration_extension_ctap2_input, auth_extension_ctap2_input, prf input conversion}, CollectedClientData serialisation (serde_json field order and string escaping), the attestation object, public_key_der_from_cose_key, base64url, From<StatusCode> for WebauthnError (Model/Client.lean, Base/Base64.lean); RpIdVerifier as in C01; URL parsing / IDNA are inputs read back from the implementation (origin string, host, ASCII form)",
]

CRYPTO_TRUSTED = [
    "P-256 arithmetic and ECDSA verification by Base/P256.lean (executable oracle over Nat, affine and Jacobian formulas cross-checked against each other and against RFC 6979 A.2.5; nothing proved about it) — used only by the Spec on observed keys and signatures",
    "JSON reader Base/Json.lean and CBOR reader Base/Cbor.lean stand for the relying party's parsers",
]

U2F_TRUSTED = COMMON_TRUSTED + [
    "modelled by hand: U2fApi::{register, authenticate}, Passkey::wrap_u2f_registration_request / from_u2f_register_response, RegisterResponse::encode, AuthenticationResponse::encode, Version::encode, Request::try_from(&[u8]) incl. its panics (Model/U2f.lean); the stores as in the authenticator model",
    "environment as parameters: the drawn key pair (read back from the stored passkey); ECDSA signing is not computed — the model yields the signed message and key, every observed signature is verified by the Spec's P-256 oracle (Base/P256.lean)",
    "the instrumented store wrapper of the harness",
]

PROPS = {
    "C14": {
        "modules": ["PasskeyVerif.Props.C14"],
        "props_files": ["PasskeyVerif/Props/C14.lean"],
        "translators": [tr_decoders, tr_webauthn],
        "harness": [["gen", "C14"]],
        "technique": "Lean 4 theorems (all byte strings / all texts / all JSON objects) over hand-written models of the base64 helpers, the Bytes visitor, StringOrNum and the client-data member order, and over a model of the serde-derived struct parsers that interprets a schema regenerated from the serde attributes of the option structs on every run (kernel-checked obligations over that schema); differential correspondence on every leaf input and every option document; metamorphic stream on the real parsers",
        "trusted": COMMON_TRUSTED + [
            "modelled by hand: encoding::{base64url, base64, try_from_base64url, try_from_base64} and Bytes::try_from(&str) (Base/Base64.lean), Bytes::deserialize on JSON values, StringOrNum / maybe_stringified / i64_to_iana (Model/WebauthnJson.lean; decimal texts with more than 15 significant digits are outside the model)",
            "translator translate/webauthn.py: struct members (JSON name via rename_all/rename, aliases, type, default, deserialize_with/with helper) and enum variants (rename_all/rename/alias, #[default]) of the 12 structs and 8 enums reachable from CredentialRequestOptions / CredentialCreationOptions; fails closed on any attribute, type or shape it does not know (e.g. serde(other), deny_unknown_fields, flatten); cross-checked by the js.opts stream (the interpreted schema against the real derived parsers on every document)",
            "modelled by hand: what #[derive(Deserialize)] generates for such a schema read by serde_json (member lookup, skipping unknown members, duplicate detection, defaults and implicit None, Option/Vec/HashMap/enum/struct shapes) and the helpers ignore_unknown (streaming and buffered), ignore_unknown_opt_vec / ignore_unknown_vec over PossiblyUnknown (Model/SerdeStruct.lean); outside the model (verdict na, implementation output echoed): the positional (array) form of a struct, a struct that fails to parse under a streaming ignore_unknown, numbers beyond 15 significant digits",
            "modelled by hand: what #[derive(Serialize)] writes for such a schema (declaration order, skip_serializing_if = Option::is_none, Bytes as an array of numbers or - under the crate feature serialize_bytes_as_base64_string - base64url text, enumerations as variant names, integers as decimal tokens) and serde_json's compact text (Model/SerdeSer.lean); compared with the real serialiser on every emitted and every directly built credential (js.ser). NOT modelled: CollectedClientData's flatten (member order is checked on the real code by the stream)",
            "JSON reader Base/Json.lean (with an RFC 8259 number check in the driver) stands for serde_json's tokeniser; coset 0.3.8's table of known COSE algorithms is a parameter of the theorems and a table in the driver",
            "translator translate/decoders.py: PossiblyUnknown is the buffered (untagged) form",
        ],
        "assumptions": ["an entry whose `type` is an unknown string is kept with the Unknown variant (the string is ignored, not the entry): such entries are the same in every presentation of a value",
                        "serde_json reads an object member by member in text order and a derived visitor behaves as Model/SerdeStruct.lean says (checked on every document of the stream)"],
        "level_text": "Kernel-checked for every byte string: base64url encoding followed by Bytes::try_from is the identity, the text is unpadded and url-safe, and standard base64 text with any amount of padding decodes to the same bytes; under the model of the Bytes visitor a binary member parses to the same bytes as base64url text, as base64 text (padded or not) and as an array of number tokens; under the model of StringOrNum a number token, a numeric string and an integral float denoting the same in-range value all parse to it; re-serialised client data lists type, challenge, origin, crossOrigin first and then the other members in input order. Kernel-checked for every schema, every JSON object and every position under the model of the derived struct parsers: a member that is no field is ignored whatever its value; an unknown enumeration string read through ignore_unknown gives the default, not an error; list entries that do not parse are dropped and the others kept in order; the parsed struct depends on a binary / numeric member only through the bytes / number it denotes (instantiated end to end for the challenge of the regenerated request options). Kernel-checked over the schema regenerated from the source on every run: the required members are exactly the WebAuthn-required ones (every other member may be absent), every enumeration member and every list of enumerations / descriptors / parameters is read through the lenient helper, defaults name variants, member names are distinct. Kernel-checked for the emitted credentials (PublicKeyCredential<R> for both response types, regenerated): the eight structs meet the round-trip conditions (helpers on the types they are written for, skipped members optional with a default, names distinct), and for every value of either credential type, in either form of binary members, whatever the serialiser model writes the parser model reads back as that value (mutual induction over values; decimal printing and reading of integers and the base64 round trip are proved, not assumed). Client-data member order of the real code is checked by the stream. Stream: 700 leaf texts against the leaf models; 900 (thorough 7000) option documents (mostly valid and malformed: members absent / null / wrong type / duplicated / aliased, unknown members and values anywhere) with the interpreted schema against the real parsers; 40 (300) option values x 10 presentations requiring one parsed value; emitted credentials re-parsed; base64url round trips; client-data documents.",
        "level_note": "Trusted: Lean kernel; axioms propext/Classical.choice/Quot.sound; translator webauthn.py (fails closed; cross-checked by the stream); hand models (compared on every input); JSON reader. Fixed defect (ecc6514): an unknown list entry was dropped only when its offending member came last in the object.",
        "rule": "leaf texts: 80 (thorough 600) byte strings x 6 presentations, 20 malformed binary texts, 61 curated number texts + 80 (600) random ones, each as timeout and as algorithm identifier; 500 (4000) generated option documents over 7 root types, two thirds mostly valid (4% bad members), one third malformed (30%), plus each presentation of the metamorphic groups; 40 (300) option values x 10 presentations; 15 (100) register+authenticate pairs re-parsed and their text compared with the serialiser model, 80 (600) credential values built directly (every optional member present / absent, ids needing escapes, extreme algorithm numbers); 300 (2000) base64url round trips; 80 (600) client-data documents.",
    },
    "C15": {
        "modules": ["PasskeyVerif.Props.C15"],
        "props_files": ["PasskeyVerif/Props/C15.lean"],
        "translators": [tr_decoders, tr_flags],
        "harness": [["gen", "C15"]],
        "cargo_profile": "c15",
        "technique": "Lean 4 theorems over hand-written total models of the repository's own decoders (explicit panic outcome, never produced) and over facts regenerated from the Rust sources on every run (capped reservations, buffered list elements, no panicking construct left); differential correspondence on outcome classes; mutated inputs to all 18 decoders in isolated worker processes with address-space and time limits (search, the only evidence for the third-party decoders)",
        "trusted": COMMON_TRUSTED + [
            "translator translate/decoders.py (with_capacity arguments fed from size_hint and their .min(N) cap; derive/untagged attributes of PossiblyUnknown; slice indexing, split_at, unreachable!, unchecked GenericArray::from_slice in the U2F parsers and public_key_der_from_cose_key)",
            "modelled by hand: u2f::Request::try_from with its payload parsers (Model/U2f.lean), ChannelHandler::handle_packet (Model/Hid.lean, C16), AuthenticatorData::from_slice (Model/AuthData.lean, C12; ciborium's 256-level recursion limit is part of the driver's instantiation), base64 decoding (Base/Base64.lean), valid_fingerprint (Model/Decoders.lean); outcome classes compared on every input of the stream",
            "NOT modelled: ciborium, serde_json, coset, url, idna, nom and the serde-derived struct glue (CTAP2 CBOR messages, WebAuthn JSON, COSE keys, origins / RP IDs, public-suffix lookups): for these only the worker-process stream speaks",
            "worker runner (c15.rs): 3 GiB address-space limit, 6 s per input, largest single allocation request recorded by a tracking global allocator",
        ],
        "assumptions": ["'in proportion': largest allocation request <= 64 x input length + 2 MiB (serde's own 1 MiB cautious reservations and the 64 KiB credential-id buffer are constants), time <= 1 s + 50 us per byte"],
        "level_text": "PARTIAL. Kernel-checked: regenerated from the sources, every reservation fed from a declared sequence length is capped (<= 4096), list elements are buffered before being judged (input errors propagate), and no slice index / split_at / unreachable! / unchecked from_slice is left in the U2F parsers and the COSE-key converter; on the models: the U2F request parser returns a request or a status word for every byte string and its fields are cut out of the frame, CTAPHID packets shorter than 5 or longer than 64 bytes are refused and a delivered message's payload has exactly the declared length, authenticator data shorter than 37 bytes is refused and the parts of an accepted value hold no more bytes than the input, a CBOR value read by the modelled definite-length reader (items plus payload bytes) is no larger than the bytes it was read from for every input and fuel, base64 output is at most 3/4 of the text, an accepted fingerprint is exactly 95 characters. Not proved: anything about ciborium / serde_json / coset / url / idna / nom and the derived glue. For all 18 decoders the stream feeds valid encodings and their mutations (truncation, extension, bit flips, length fields rewritten to huge declared lengths, deep nesting, arbitrary bytes) to the real code in worker processes and checks value-or-error, allocation and time in proportion; on the modelled decoders the outcome class is compared with the model.",
        "level_note": "Trusted: Lean kernel; axioms propext/Classical.choice/Quot.sound; translator; hand models; worker runner. Fixed defects: HID receiver (3374224), U2F framing (c4bc33d), COSE coordinates (7e90e89), declared-length reservations (6d31839), swallowed element errors (ecc6514).",
        "rule": "per decoder 150 (thorough 1500; U2F x3, HID x2) mutations of 6-9 valid encodings: truncation at a random point, random extension, 1-3 bit flips, a byte replaced by a CBOR head declaring 2^30..2^64 elements (with and without the input ending there), nesting 200 / 5000 / 100000 deep, 3000 nested containers spliced in, arbitrary bytes, adjacent-byte removal; plus the known killers (a1 01 9b 00 00 01 00 00 00 00 00; truncated 2^30-element transports list; U2F frames of 0..11 bytes and all 256 P1 bytes; 7-byte HID init packet; 31-byte COSE coordinates; 100 KB strings for the text decoders).",
    },
    "C19": {
        "modules": ["PasskeyVerif.Props.C19"],
        "props_files": ["PasskeyVerif/Props/C19.lean"],
        "translators": [tr_flags],
        "harness": [["gen", "C19"]],
        "exhaustive": True,
        "trusted": AUTH_TRUSTED + [
            "interleaving model (Model/Concurrent.lean): a ceremony is a sequence of atomic store / user-validation calls; its tie to the code is the correspondence below, which drives the real futures of authenticators sharing Arc<tokio::sync::Mutex<MemoryStore>> / Arc<tokio::sync::RwLock<MemoryStore>> by hand under every interleaving of each scenario (the mocks yield before every call, so the suspension points are exactly the calls)",
            "a ceremony that does not finish within 200 further rounds of polling after its schedule is reported as stuck (deadlock)",
        ],
        "assumptions": ["suspension points are the store and user-validation calls (the lock wrappers take their lock per call and release it before returning); preemption inside a store call is outside the model",
                        "credential ids drawn by concurrent registrations are distinct"],
        "level_text": "Kernel-checked for any number of ceremonies and every schedule: each call of a ceremony makes progress without waiting for another ceremony, so a ceremony given as many turns as it has calls left (at most 5) has finished — no deadlock; on the map-like stores no call of any ceremony removes a stored credential id and a successful registration's save adds its id, so every successful registration's credential is present in the final store. The counter clause is REFUTED as stated: an assertion reports snapshot+1 whatever the store holds at its write-back (C19_assertion_reports_its_snapshot), lookups do not change the store, hence two assertions whose lookups precede both write-backs report the same counter (C19_counter_reuse); what holds is the partial statement for assertions that do not overlap (C19_sequential_counters_partial). The implementation shows the same reuse on the real lock wrappers under 1220 of the 2352 interleavings of the quick tier: recorded as a known finding (not a small repair). The model agrees with the implementation on every interleaving executed.",
        "level_note": "Trusted: Lean kernel; axioms propext/Classical.choice/Quot.sound; the interleaving model and the hand-polled executor of the harness. Known finding C19-overlapping-assertions-reuse-a-counter.",
        "rule": "2 lock wrappers (Arc<Mutex>, Arc<RwLock>) x 4 start counters (0, 41, 2^32-2, none) x scenarios assert/assert (20 interleavings), assert/register (35-56), register/register, assert/assert/assert and assert/register/assert (1680+ each; quick tier: first, last and 148 sampled, thorough: all up to 1700): every interleaving of the calls of the ceremonies, on the real futures.",
    },
    "C18": {
        "modules": ["PasskeyVerif.Props.C18"],
        "props_files": ["PasskeyVerif/Props/C18.lean"],
        "translators": [tr_ctapapi, tr_flags],
        "harness": [["gen", "C18"]],
        "technique": "Lean 4 theorem (decide) over forwarding facts regenerated from the Rust sources on every run, under a small model of Rust method lookup; differential correspondence: every operation run through <Authenticator as Ctap2Api> in a worker process with a time limit and compared with the Lean model of the direct methods",
        "trusted": AUTH_TRUSTED + [
            "translator translate/ctapapi.py (trait and impl receivers, the single forwarding call of each body, receivers and impl bounds of the inherent methods); a body that is not a single forwarding call is a translator error = violation",
            "reachesInherent (Props/C18.lean) models the part of Rust's method lookup that matters here: path calls prefer inherent associated functions; method-call syntax takes the inherent candidate only if its receiver type is met at the first probing step and its impl bounds hold, otherwise the trait method itself",
            "the worker process runner of the harness (c18.rs): a worker killed by a signal or by the 20 s limit is reported as the last announced operation not returning",
        ],
        "assumptions": ["equality with the direct methods is equality with their Lean model, which C02-C09's correspondence ties to the direct methods on the same kinds of requests"],
        "level_text": "Kernel-checked over facts regenerated from ctap2.rs and the authenticator method files: the impl defines exactly get_info, make_credential and get_assertion, each body is a single forwarding call that passes its parameters unchanged, and under the lookup model each call reaches the inherent method of the same name (the pre-repair forwarding of get_assertion is rejected by the same model). That the calls terminate and give the direct methods' results and store effects is checked on the real code: 60 (thorough 400) cases of getInfo / makeCredential / getAssertion requests as for C02-C05 (successful and failing, all store kinds, six user-validation behaviours, store faults) are run through the trait in worker processes and compared byte for byte with the model of the direct methods.",
        "level_note": "Trusted: Lean kernel; axioms propext/Classical.choice/Quot.sound; the translator; the lookup model; the hand model of the direct methods; the worker runner. Fixed defect: get_assertion through the trait recursed until the stack overflowed (fix commit 98388c5).",
        "rule": "60 (thorough 400) cases, each in its own worker process: get_info, then 2-4 make_credential / get_assertion requests (exclude / allow lists absent, empty, hits, misses; rk/up/uv/pinAuth variations; unsupported algorithms; PRF requests; store fault at the second call 1 in 8) over 6 stores (contract store x3 capabilities, map, slot, Arc<Mutex<map>>) with 0-3 stored credentials and 6 user-validation behaviours, then get_info again.",
    },
    "C17": {
        "modules": ["PasskeyVerif.Props.C17"],
        "props_files": ["PasskeyVerif/Props/C17.lean"],
        "translators": [],
        "harness": [["gen", "C17"]],
        "technique": "Lean 4 theorems over a hand-written model of the U2F API, response encodings and request framing; differential correspondence harness with a P-256 / ECDSA oracle for the signatures",
        "trusted": U2F_TRUSTED,
        "assumptions": ["key handles of at most 255 bytes (the length byte of the format)", "the registration signature is accepted in DER or as fixed 64-byte r||s (the statement asks that it verifies, not for an encoding; the implementation returns r||s for registration and DER for authentication)"],
        "level_text": "Kernel-checked for every store, key, application, challenge, key handle, counter and presence byte: a successful U2F registration returns the drawn public point and the key handle, signs 0x00 || application || challenge || key handle || 0x04 || x || y with the drawn key, and the store accepted a credential for that application (base64url as RP ID) and key handle with that key and counter zero; a store error fails it with nothing changed; a successful authentication signs application || presence || big-endian counter || challenge with the key of the first credential listed for key handle and application and echoes presence and counter; when the lookup finds nothing there is no response; after a successful registration, authentication with that handle and application signs with the registered key (on all three stores, via lookup-after-save); the encodings are the fields in the specified order ending in 0x9000 with a faithful length byte and counter field; parsing the extended-length frame of any well-formed register / authenticate (control byte 3, 7, 8; key handle 0..255 bytes) / version request, with or without Le bytes, returns that request. Every observed registration and authentication signature of the stream is verified by the Spec, the stored private key is checked against the returned public key, encodings are compared with the layout, and generated well-formed frames are parsed by the real parser.",
        "level_note": "Trusted: Lean kernel; axioms propext/Classical.choice/Quot.sound; the hand model (compared byte for byte except signature bytes); P-256 oracle; instrumented store.",
        "rule": "60 (thorough 400) histories of 2-7 U2F registrations and authentications on the contract store (two applications), the in-memory map and the single-slot store: key handles of 0, 1, 16, 32, 64, 65, 128, 254, 255 bytes, re-registration of a handle, unknown handles, known handle with another application, counters 0, 1, 255, 256, 65536, 2^31, 2^32-1, presence on/off, control bytes 3/7/8; the version response; 120 (600) well-formed extended-length frames (register, authenticate with handles of 0..255 bytes, version; without Le, Le=0000, Le=0100).",
    },
    "C06": {
        "modules": ["PasskeyVerif.Props.C06"],
        "props_files": ["PasskeyVerif/Props/C06.lean"],
        "translators": [tr_secrets, tr_flags],
        "harness": [["gen", "C06"]],
        "technique": "Lean 4 noninterference theorems over the hand-written ceremony models (responses are independent of the private scalar and, without an evaluation request, of the PRF secrets) plus theorems by decide over facts regenerated from the Rust sources on every run (which key half is attested / stored, what Debug of a passkey renders, derives of the secret-holding structs); every serialisation returned by the real code is scanned by the executable Spec (search, supporting)",
        "trusted": AUTH_TRUSTED + [
            "translator translate/secrets.py (impl Debug for Passkey field list; derive lists of Passkey, CredentialExtensions, StoredHmacSecret; CoseKeyPair::from_secret_key builders; the halves used in make_credential.rs) — a shape it does not understand is a translator error = violation",
            "the scan (Spec/Secrets.lean) searches raw, hex (both cases), decimal-list (blanks ignored), base64 and base64url renderings of each 32-byte secret; planted-secret control lines of every run must be hits",
            "the ECDSA signature is a function of the private scalar by design (outside the model; scanned like every other output)",
        ],
        "assumptions": ["secrets are at least 16 bytes (shorter values are not searched: accidental matches)", "other transformations of a secret (encryption, truncation, reversal) are not searched for"],
        "level_text": "Kernel-checked: the COSE key attested and the DER key returned are functions of the public point alone; make_credential's and Client::register's responses are equal for every private scalar, and registration's PRF output is equal for every pair of secrets unless an evaluation was asked for (then it is the HMAC of C09); the caller-visible part of an assertion (credential id, authenticator data, user handle, PRF output, message signed, public point) is equal for every stored private scalar; authenticator info does not depend on the store content; regenerated from the source and checked by decide: the attested half is built by new_ec2_pub_key and the stored one by new_ec2_priv_key, Debug of a passkey is hand-written and renders only key type and counter, and neither the passkey nor the secret-holding structs derive Debug or Serialize. Every JSON / CBOR / Debug / raw-U2F serialisation of every returned value of the stream (results, info, errors, stored passkeys' Debug) is scanned against the secrets read back from the store.",
        "level_note": "Trusted: Lean kernel; axioms propext/Classical.choice/Quot.sound; the hand models (tied to the code by C02/C03/C09's correspondence, which runs the same code paths); the translator; the scan.",
        "rule": "9 planted-secret controls, then 25 (thorough 200) authenticators (4 hmac-secret configurations, counters on/off, id lengths 16/32/64) each with 2-4 rounds of WebAuthn registration (credProps + PRF evaluation, one excluded) and authentication (PRF), CTAP2 make_credential / get_assertion with hmac-secret + prf, Debug and pretty Debug of every stored passkey after every step, authenticator info, errors, and one U2F registration + authentication; 1368 scans in the quick tier.",
    },
    "C07": {
        "modules": ["PasskeyVerif.Props.C07"],
        "props_files": ["PasskeyVerif/Props/C07.lean"],
        "translators": [tr_flags],
        "harness": [["gen", "C07"]],
        "trusted": AUTH_TRUSTED + ["cancellation = dropping the future between two polls: the harness's store and user-validation mocks yield once before every call, so the suspension points of a ceremony are exactly its store / user-validation calls; the model replays the first j events of the trace (Model/AuthCancel.lean)"],
        "assumptions": ["the store performs each call atomically (it either accepted a save / update or did not): a store whose own save can be torn is outside the model",
                        "suspension points inside the store's or the user-validation method's own implementation are not modelled"],
        "level_text": "Kernel-checked for every store kind, content, request, user-validation behaviour and fault schedule: a registration has at most one store effect, the save of the complete passkey built from the request; if it returns an error the store content is unchanged; replaying any prefix of its trace (= cancellation at that suspension point) gives the store before or the store before with that one complete credential saved; success implies the accepted save is in the trace and the store holds the credential; a save refused by the store is returned as that error. An authentication has at most one effect, the update of the first credential of the lookup with its counter advanced by one (saturating); every prefix of its trace leaves the store unchanged or with that one update; a refused update and a failed lookup are never turned into success. Tied to the code by injecting every status code of a set of 6 at every store call index (singly, and pairs) and by dropping the real futures after 0..7 polls, with byte-exact comparison of results, traces and stores, and the Spec evaluated on the implementation's observations.",
        "level_note": "Trusted: Lean kernel; axioms propext/Classical.choice/Quot.sound; the hand model; the yielding mocks; atomic store calls.",
        "rule": "registrations: 4 stores (contract store, map, slot, Arc<Mutex<contract store>>) x counter/hmac on-off x 8 request shapes (exclude list x rk x prf) x [single fault at call 0..3 x 6 status codes, 5 fault pairs, cancellation after 0..7 polls incl. refused verification], each followed by a normal registration; authentications: 4 stores x 5 counter values (none, 0, 41, 2^32-2, 2^32-1) x allow list on/off x 3 extension shapes x [fault at lookup / update x 6 codes, double fault, cancellation after 0..5 polls], each followed by a normal authentication. quick = a fixed half to third of the product, thorough = all of it.",
    },
    "C09": {
        "modules": ["PasskeyVerif.Props.C09"],
        "props_files": ["PasskeyVerif/Props/C09.lean"],
        "translators": [tr_flags, tr_psl],
        "harness": [["gen", "C09"]],
        "trusted": CLIENT_TRUSTED + ["HMAC-SHA-256 and SHA-256 of Base/Sha256.lean are the oracle every observed PRF output is recomputed with (validated against the implementation on every run; only the digest length is proved)"],
        "assumptions": ["the two secrets are random draws of the environment, read back from the stored passkey",
                        "evalByCredential is a map: repeated keys are dropped by the harness before the request is built"],
        "level_text": "Kernel-checked for every input, configuration and credential: hashed inputs are turned into SHA-256(\"WebAuthn PRF\" || 0x00 || input) and 32-byte pre-hashed inputs are passed through, other pre-hashed lengths are a validation error; every result of calculate_hmac_secret is HMAC-SHA-256 of its salt under the gated secret iff uv, else under the non-gated one, and an error when that is absent; the salts are those listed under the used credential's id, else the default; make_extensions reports enabled exactly when secrets were stored and without the capability yields no output and stores nothing; creation-time and assertion-time outputs are such HMACs over the selected salts under the selected secret of the credential created / used, the assertion passing the UV flag actually performed; a failing PRF input conversion makes register / authenticate fail with that error after only the capability query (no user validation, no store access), per-credential inputs at registration or without an allow list being not-supported. Every observed PRF output of the stream is recomputed by the Spec from the stored secrets, and the malformed shapes are checked to be rejected before the authenticator is invoked.",
        "level_note": "Trusted: Lean kernel; axioms propext/Classical.choice/Quot.sound; hand models of prf.rs and hmac_secret.rs (compared byte for byte); SHA-256/HMAC oracle; instrumented store. The statement bounds the secret used at registration (gated only if verified), it does not fix it: a verified registration that did not ask for verification uses the non-gated secret (accepted).",
        "rule": "60 (thorough 600) CTAP-level cases over the 5 hmac-secret configurations x 3 stores with 0-3 stored credentials (no / gated-only / both secrets), 2-5 ceremonies each: make with hmac-secret / prf / prf+eval (one or two salts), get with default and per-credential salts (used credential listed, among others, only another), uv asked+verified / not asked+unverified / not asked+verified / refused; 60 (600) client-level histories of 2-6 ceremonies: hashed and pre-hashed inputs of 0..100 bytes, one or two values, prf and prfAlreadyHashed both present, per-credential keys naming the used credential / another / empty / undecodable / unlisted / without allow list, three user-verification requirements, verification refused 1 in 3.",
    },
    "C02": {
        "modules": ["PasskeyVerif.Props.C02"],
        "props_files": ["PasskeyVerif/Props/C02.lean"],
        "translators": [tr_flags, tr_psl],
        "harness": [["gen", "C02"]],
        "trusted": CLIENT_TRUSTED + CRYPTO_TRUSTED,
        "assumptions": ["the random credential id and key pair are draws of the environment (read back from the implementation); their freshness, length and validity are checked on every observed registration, not proved",
                        "Url parsing and IDNA are inputs"],
        "level_text": "Kernel-checked for every request, store, user-validation behaviour and draw: a successful Client::register returns the client data serialisation of type webauthn.create with the request's challenge (base64url) and the caller's origin; the attestation object wraps byte-identically the authenticator data returned beside it; that data encodes SHA-256(effective RP ID), the ceremony's flags, the initial counter and attested credential data with the drawn credential id and the COSE public half of the drawn key; raw id / id / DER key / algorithm are built from the same id and key; choose_algorithm returns the first supported entry (empty list = WebAuthn defaults) and a list without one fails with nothing saved and the store unchanged; the store afterwards is the store before with exactly the new passkey (drawn id and key incl. private half, effective RP ID, initial counter), appended when the id is fresh. What a relying party recomputes from bytes — JSON and CBOR parsing, unpadded base64url, valid P-256 point, COSE = DER, private key matches public key (d*G), fresh id of the configured length, exactly one credential added — is evaluated by the Spec on every observed registration of the stream.",
        "level_note": "Trusted: Lean kernel; axioms propext/Classical.choice/Quot.sound; the hand models (compared byte for byte incl. client data JSON, attestation object, DER key); P-256/JSON/CBOR oracles of the Spec; instrumented store.",
        "rule": "corpus (9 accepted origins/RP IDs incl. IDN, port, localhost, Android; 8 algorithm lists; 12 requested id lengths 0..255) then 150 (thorough 1500) cases of 1-4 registrations into one store (contract store x3 capabilities, map, slot): challenges of 0..100 bytes, user ids 1..64 bytes, algorithm lists with unsupported / duplicate / no supported entries, client data default / extra members (escapes, Unicode, nested) / caller hash, counter on/off, refused origins in between.",
    },
    "C03": {
        "modules": ["PasskeyVerif.Props.C03"],
        "props_files": ["PasskeyVerif/Props/C03.lean"],
        "translators": [tr_flags, tr_psl],
        "harness": [["gen", "C03"]],
        "trusted": CLIENT_TRUSTED + CRYPTO_TRUSTED,
        "assumptions": ["ECDSA signing (p256 crate) is not modelled: the model yields the signed message and the signing key; every observed signature is verified by the Spec's P-256 oracle over exactly that message and key",
                        "the store keeps the lookup contract for 'registered for that RP' (C05; the in-memory map's known findings are kept out of this stream by giving it one RP per case)"],
        "level_text": "Kernel-checked for every request, store, user-validation behaviour: a successful get_assertion / Client::authenticate signs exactly the encoding of the returned authenticator data followed by the request's client data hash (SHA-256 of the returned client data JSON, or the caller-supplied hash) with the key of the credential the store's lookup for the effective RP ID and allow list lists first; raw id, id (base64url) and user handle are that credential's; client data is the webauthn.get serialisation of the request's challenge and the caller's origin; authenticator data is built for the effective RP ID (hash field SHA-256(rp)) without attested credential data; an empty lookup is CTAP2_ERR_NO_CREDENTIALS, which reaches the caller as credential-not-found with no response. Every observed signature of the stream is verified (ECDSA P-256/SHA-256, DER) by the Spec under the public key registered for the returned id, whose private half is checked to generate it.",
        "level_note": "Trusted: Lean kernel; axioms propext/Classical.choice/Quot.sound; the hand models (compared byte for byte except the signature bytes); P-256/JSON oracles of the Spec; instrumented store.",
        "rule": "corpus (assertion before any registration, then absent / naming / unknown-only / empty / mixed allow lists and another RP, on contract store, map, slot) then 120 (thorough 1200) histories of 3-9 interleaved registrations and authentications over 1-2 RP IDs (9 accepted origins incl. IDN and Android), allow lists absent / empty / one registered id (possibly another RP's) / unknown+known / unknown only / all, challenges 0..100 bytes, three client data modes, three user-verification requirements, 1 in 10 with verification refused.",
    },
    "C11": {
        "modules": ["PasskeyVerif.Props.C11"],
        "props_files": ["PasskeyVerif/Props/C11.lean"],
        "translators": [tr_flags, tr_psl],
        "harness": [["gen", "C11"]],
        "exhaustive": True,
        "trusted": CLIENT_TRUSTED,
        "assumptions": ["the store reports its capability truthfully and performs each call atomically"],
        "level_text": "Kernel-checked for every request, store content, capability, user-validation behaviour and fault schedule (not only the finite product): map_rk is the WebAuthn table; whatever make_credential hands to the store holds the user handle exactly when discoverable under the store's capability (full: as requested; non-discoverable only: never; forced: always) and carries the request's rk option; a resident key asked of a store that only holds non-discoverable credentials never succeeds and saves nothing (CTAP2_ERR_UNSUPPORTED_OPTION once the earlier steps pass), at CTAP level and through the client; a successful Client::register sent the mapped rk, stored the handle iff discoverable and reports credProps exactly when requested and exactly that; a successful assertion (CTAP and client) returns the user handle the credential used stores. Tied to the code by the complete product of the statement run through the real client and authenticator (registration, assertion without and with an allow list naming the new credential) with byte-exact comparison of responses, traces and stores; the Spec clauses are evaluated on the implementation's observations.",
        "level_note": "Trusted: Lean kernel; axioms propext/Classical.choice/Quot.sound; the hand models of client and authenticator (compared byte for byte on the whole product); the instrumented store; Spec = the statement's tables (webauthnRk, discoverableUnder, refusesResidentKeys).",
        "rule": "complete enumeration: store (contract store with each of the 3 capabilities, plus the shipped map and slot stores) x residentKey (absent, discouraged, preferred, required) x requireResidentKey (2) x credProps (absent, false, true), plus absent authenticatorSelection, each = register + assert without allow list + assert naming the new credential; CTAP-level rk (2) x the same 5 stores = make + get + get naming the new credential.",
    },
    "C08": {
        "modules": ["PasskeyVerif.Props.C08"],
        "props_files": ["PasskeyVerif/Props/C08.lean"],
        "translators": [tr_flags],
        "harness": [["gen", "C08"], ["@c15", "gen", "C08dbg"]],
        "trusted": AUTH_TRUSTED,
        "assumptions": ["stored counters are 32-bit values", "the store performs each call atomically and, for the per-credential history, is not shared with a concurrent ceremony (that is C19)"],
        "level_text": "Kernel-checked for every configuration, store and request: registration reports and stores zero (or none); a successful assertion uses the first credential of the lookup and, if it has counter c, responds with bump(c) after the store accepted exactly that value, where bump(c) = c+1 below 2^32-1 and stays 2^32-1 at the maximum (never smaller, no crash); a credential without a counter reports none (zero on the wire) and is never rewritten; the encoded counter field is the counter. Any history of successful assertions with one credential (any requests and user-validation behaviours) on a store holding it with counter c reports exactly c+1, c+2, ..., c+n (saturating) and ends with the last value stored (C08_history, by induction over the history; C08_counters_step: strictly +1 below the maximum). Tied to the code by sequences of 2-9 assertions interleaved over 1-3 credentials with start values 0, 1, 2^31, 2^32-2, 2^32-1, random, with and without extension requests; the boundary corpus runs a second time against an unoptimised build with overflow checks and debug assertions.",
        "level_note": "Trusted: Lean kernel; axioms propext/Classical.choice/Quot.sound; the hand model (compared byte for byte incl. the counter boundary); Spec = the statement's clauses over (store before, observation).",
        "rule": "boundary corpus (start 2^32-3, 2^32-2, 2^32-1 on three stores, three assertions each) then 150 (thorough 1500) histories of 2-9 ceremonies over 1-3 credentials with and without counters, registrations and denied ceremonies in between, with and without PRF requests.",
    },
    "C05": {
        "modules": ["PasskeyVerif.Props.C05"],
        "props_files": ["PasskeyVerif/Props/C05.lean"],
        "translators": [tr_flags],
        "harness": [["gen", "C05"]],
        "trusted": AUTH_TRUSTED,
        "assumptions": ["the store performs each call atomically", "lock wrappers delegate to the wrapped store (they are run, and modelled as the store they wrap)"],
        "level_text": "Kernel-checked: for every store, a successful assertion is made with the first credential returned by a lookup for the request's RP ID and its non-empty allow list; for every store keeping the documented contract the credential used is a stored one bound to that RP and named in a non-empty allow list, and registration fails with credential-excluded (nothing saved, store unchanged) exactly when a non-empty exclude list names a stored credential of the same RP; the contract is proved for the reference store and the repaired single-slot store and refuted by a concrete witness for the in-memory map (known finding). The model is tied to the code by a differential stream over store contents with several RPs / shared user handles and every list shape, on the contract store, both shipped stores and four lock wrappers; the Spec (contract on every lookup, binding, exclusion) is evaluated on the implementation's observations.",
        "level_note": "Trusted: Lean kernel; axioms propext/Classical.choice/Quot.sound; the hand model of the authenticator and of the three stores (compared byte for byte on the stream); the instrumented wrappers. Known findings (MemoryStore ignores rp_id; finds nothing without an id list) are listed in known_findings.json.",
        "rule": "400 (thorough 4000) cases: 0-5 stored credentials over 3 RPs with shared / distinct / absent user handles, 1-3 ceremonies each with allow/exclude list absent, empty, hits for the RP, ids of another RP, misses, mixtures; 9 store variants (contract store x2 capabilities, map, slot, Arc<Mutex>/Arc<RwLock>/RwLock wrappers); cross-RP corpus first.",
    },
    "C04": {
        "modules": ["PasskeyVerif.Props.C04"],
        "props_files": ["PasskeyVerif/Props/C04.lean"],
        "translators": [tr_flags],
        "harness": [["gen", "C04"]],
        "exhaustive": True,
        "trusted": AUTH_TRUSTED,
        "assumptions": ["user validation answers as configured; the store performs each call atomically"],
        "level_text": "Kernel-checked for every configuration, user-validation behaviour, store (any kind, content and fault schedule), draw and request — not only the finite product: a save/update/result occurs only after the user-validation step was asked with the requested options and consent was given; UP/UV of the returned authenticator data are exactly what was reported; the named consent errors are returned and leave the store untouched; while consent is missing the outcome is independent of the store; the credential shown is the one that signs. The model is tied to the code by the complete enumeration of the statement's product (2688 rows x present/absent) with byte-exact comparison of results, traces and stores, and the Spec is evaluated on the implementation's observations.",
        "level_note": "Trusted: Lean kernel; axioms propext/Classical.choice/Quot.sound; the hand model of the authenticator (compared on the whole product); the instrumented mocks; Spec = the statement's clauses as predicates over (request, environment, observation).",
        "rule": "complete enumeration: operation (2) x rk/up/uv (8) x verification capability (3) x presence capability (2) x user-validation answer (4 presence/verification results + 3 error codes) x pinAuth (2) x matching credential present/absent (2) = 2688 ceremonies on the contract store and the in-memory map.",
    },
    "C13": {
        "modules": ["PasskeyVerif.Props.C13"],
        "props_files": ["PasskeyVerif/Props/C13.lean"],
        "translators": [tr_ctap],
        "harness": [["gen", "C13"]],
        "technique": "Lean 4 theorems over member tables, status-code tables and conversion orders regenerated from the Rust sources on every run (kernel-checked by decide), plus generic theorems about a hand-written model of the serde_workaround! macro; differential correspondence harness",
        "trusted": COMMON_TRUSTED + [
            "translator translate/ctap.py (serde_workaround! attribute tables of make_credential.rs, get_assertion.rs, get_info.rs, hmac_secret.rs; repr_enum! tables, range matches and try_from cascade orders of error.rs); cross-checked on every run by the serialisations of generated messages and by all 256 status bytes",
            "modelled by hand: what the serde_workaround! macro expands to (Serialize, FieldVisitor, Visitor::visit_map, set_if_none / check_is_already_set) and the derived Deserialize of Options; member values are opaque CBOR items (their own (de)serialisation is serde-derived code outside the model)",
            "CBOR tokenisation by ciborium (the driver decodes the implementation's bytes with Base/Cbor.lean)",
        ],
        "assumptions": ["member values re-serialise to the bytes they were deserialised from (holds for the generated values; checked by the stream)",
                        "well-formed values exclude Version::Unknown / Extension::Unknown holding a known name"],
        "level_text": "Kernel-checked: the regenerated member tables equal the CTAP key assignment (required/optional included) and every schema has strictly ascending keys; for every such schema and every well-formed value, deserialize(serialize v) = v, emitted keys are those of the present members in ascending order, unknown integer (0..255) and text keys are skipped, duplicates and missing required members are errors, absent options default to rk=false/up=true/uv=false; all 256 status bytes convert without reaching the unwrap failure and back to themselves, and the client maps 0x2E to credential-not-found and passes every other byte through (decide over the regenerated tables). The models are tied to the code by a differential stream (real serialisations re-read and re-written, injected unknown/duplicate/missing/reordered/bad keys, all status bytes).",
        "level_note": "Trusted: Lean kernel; axioms propext/Classical.choice/Quot.sound; the translator (cross-checked); the hand model of the macro expansion (checked on explored inputs); Spec = CTAP 2.1/2.2 key tables.",
        "rule": "all 256 status bytes; all 27 presence/value combinations of the options map; per message type 40 (thorough 400) generated values with every optional member present/absent, each also with 3 injected unknown keys, one duplicated member, one removed member, reversed entries and one bad key.",
        "exhaustive": False,
    },
    "C12": {
        "modules": ["PasskeyVerif.Props.C12"],
        "props_files": ["PasskeyVerif/Props/C12.lean"],
        "translators": [tr_flags],
        "harness": [["gen", "C12"]],
        "technique": "Lean 4 theorems about a hand-written executable model of attestation_fmt.rs (flag constants regenerated from flags.rs), parametric in the third-party CBOR reader; differential correspondence harness; executable WebAuthn-layout Spec evaluated on the implementation's bytes",
        "trusted": COMMON_TRUSTED + [
            "translator translate/flags.py (bitflags! block and Default impl of flags.rs); cross-checked on every run by the exhaustive 256-byte from_bits stream",
            "modelled by hand: AuthenticatorData::{new,set_flags,set_attested_credential_data,set_*_extensions,to_vec,from_slice}, AttestedCredentialData::{new,into_iter,from_reader}",
            "third-party CBOR code (ciborium reader, coset CoseKey parse/serialise) enters the theorems as an interface: a reader that consumes exactly one item and accepts no proper prefix of an item. The RFC 8949 reader the driver runs in its place (Base/Cbor.lean, Model/AuthDataCbor.lean) is PROVED to meet that interface (C12_cbor_reader: decode(encode x ++ rest) = (x, rest) and every proper prefix of encode x is refused, for every well-formed item of depth <= 256); that ciborium itself behaves like this reader is checked by the correspondence stream only",
            "SHA-256 of the RP ID is computed by Base/Sha256.lean (an oracle; nothing is proved about it)",
        ],
        "assumptions": ["ciborium/coset re-serialise a decoded canonical item to the same bytes (used when comparing decoded keys and extension values)",
                        "values are built with the provided constructor and setters (set_flags only with UP/UV/BE/BS)"],
        "level_text": "Kernel-checked for all values: the encoding is exactly the WebAuthn concatenation with AT forced on when the attested section is present; AT/ED are set exactly when the sections are present for every value built with the constructor and setters; decode(encode a) = a (absent counter reads back as zero) for every well-formed value and every CBOR reader meeting the interface, and the RFC 8949 reader run by the driver is proved to be one (round trip and prefix-freeness of the CBOR encoding by mutual induction over items); inputs shorter than 37 bytes, with reserved bits, or with a flagged section cut anywhere are rejected; ids above 65535 bytes are refused. The model is tied to attestation_fmt.rs by a differential stream (encodings, every truncation) and the executable Spec is evaluated on the implementation's bytes, including single-byte corruptions.",
        "level_note": "Trusted: Lean kernel; axioms propext/Classical.choice/Quot.sound; the hand model (checked on explored inputs); ciborium/coset behave as a one-item prefix-free reader; Spec = WebAuthn §6.1/§6.5.1.",
        "rule": "all 256 flag bytes; id lengths 0,1,16,255,256,65535,65536 x extension shapes; all 16 user-flag subsets; 300 (thorough 3000) random values; every (quick: every third) truncation of valid encodings; single-byte corruptions and arbitrary bytes judged by the Spec only.",
    },
    "C01": {
        "modules": ["PasskeyVerif.Props.C01"],
        "props_files": ["PasskeyVerif/Props/C01.lean"],
        "translators": [tr_psl],
        "harness": [["gen", "C01"]],
        "trusted": COMMON_TRUSTED + [
            "modelled by hand: RpIdVerifier::{assert_domain, assert_web_rp_id, assert_valid_rp_id, assert_android_rp_id}, host_to_ascii, is_equal_or_label_suffix, has_empty_label of passkey-client/src/lib.rs",
            "outside the model, passed in as observed values: Url::{scheme,domain} (url crate), idna::domain_to_ascii (the IDNA mapping is an assumption; the theorems hold for any such function)",
            "default provider: the C10 model and theorems (table and rules regenerated from /repo)",
            "the end-to-end part (Client::register/authenticate reach the authenticator only with the RP ID of an accepted pair) is a mini-model checked by correspondence and by the Spec on the implementation's recorded store/user-validation events; the full client model is C02/C03",
        ],
        "assumptions": ["idna::domain_to_ascii maps a name to the ASCII form the public suffix list is keyed on", "Url::domain() returns the origin's DNS host name (none for IP literals)"],
        "level_text": "Kernel-checked: for every verifier configuration (any provider, any IDNA function, localhost flag), origin and requested RP ID, acceptance implies effective-RP-ID identity, label-aligned suffix, https (web) and registrability, with the localhost exception; for the default provider registrability equals the PSL specification over the shipped list (via C10), so public suffixes are never accepted. The model is tied to lib.rs by a differential stream over generated origins/RP IDs (all error codes compared) and the Spec is evaluated on every accepted pair and on the store/user-validation events of end-to-end ceremonies.",
        "level_note": "Trusted: Lean kernel; axioms propext/Classical.choice/Quot.sound; hand model of RpIdVerifier (checked on explored inputs); url and idna crates (observed); C10's trusted base for the default provider.",
        "rule": "corpus of formerly mis-accepted pairs; 4000 (thorough 30000) generated (host shape x scheme x port x web/android) x (RP ID absent/equal/label suffix/character suffix/prefixed/unrelated/empty/dotted/localhost/public suffix) x localhost flag x provider (default/always/never); every rule of the list (quick: a tenth) as host and as RP ID; one in eight also end to end through Client::register/authenticate.",
    },
    "C10": {
        "modules": ["PasskeyVerif.Props.C10", "PasskeyVerif.Props.C10Table", "PasskeyVerif.Props.C10Rules"],
        "props_files": ["PasskeyVerif/Props/C10.lean", "PasskeyVerif/Props/C10Table.lean", "PasskeyVerif/Props/C10Rules.lean"],
        "translators": [tr_psl],
        "harness": [["gen", "C10"]],
        "technique": "Lean 4 theorems (table walk = trie walk = PSL algorithm over the rule list, for every byte string) over a table and rule list regenerated from /repo on every run and re-checked by the kernel (decide +kernel); model of lib.rs tied to the code by a differential correspondence harness",
        "trusted": COMMON_TRUSTED + [
            "translator translate/psl.py (reads tld_list.rs and public_suffix_list.dat; IDN rule labels punycoded with Python's punycode codec); its reading of the table is cross-checked on every run against the constants and arrays dumped from the compiled crate (op psl.table)",
            "modelled by hand: public-suffix/src/lib.rs (public_suffix, find, node_label, effective_tld_plus_one, is_effective_tld) on byte lists; str slicing modelled as byte slicing (every cut is next to an ASCII dot)",
        ],
        "assumptions": ["inputs are compared bytewise as given (no case folding, no IDNA), as the crate documents",
                        "the empty string is outside the statement for is_effective_tld (the code returns true; noted in DESIGN.md)"],
        "level_text": "For every byte string: public suffix, eTLD+1 and is_effective_tld computed by the model of lib.rs over the regenerated table equal the publicsuffix.org algorithm over the regenerated rule list; results are label-aligned suffixes, eTLD+1 has exactly one more label, empty labels are rejected, no lookup panics. The table-vs-rule-list obligation is re-checked by the Lean kernel whenever either file changes; the model is tied to lib.rs by a differential stream over rule-derived and arbitrary names.",
        "level_note": "Trusted: Lean kernel; axioms propext/Classical.choice/Quot.sound; the translator (cross-checked against the compiled constants); the hand-written model of lib.rs (checked on explored inputs); the Spec (PSL algorithm text).",
        "rule": "every rule of the .dat file (quick: a seeded fifth) as a name, extended by 1-3 labels, with the leading label removed / replaced, wildcard rules with and without a label; hand-picked corner cases; arbitrary strings (Unicode, empty labels, up to 10 kB, mixed case).",
    },
    "C16": {
        "modules": ["PasskeyVerif.Props.C16"],
        "props_files": ["PasskeyVerif/Props/C16.lean"],
        "translators": [tr_hid],
        "harness": [["gen", "C16"]],
        "trusted": COMMON_TRUSTED + [
            "translator translate/hid.py (packet size, header sizes, packet-type bit, the continuation-packet limit of Message::new, enum Command discriminants and the TryFrom<u8> table of hid.rs; fails closed on other shapes); C16_constants ties them to the model's constants and is re-checked by the kernel on every run",
            "modelled by hand: passkey-transports/src/hid.rs (Command, headers, Message::{new,send,to_packets,init,extend}, ChannelHandler::handle_packet); HashMap modelled as a function Chan -> Option Msg",
            "writer assumed to accept whole 64-byte writes (send uses write, not write_all)",
        ],
        "assumptions": ["std::io::Write accepts each 64-byte write whole", "u32 channel ids compared as their native-endian wire bytes"],
        "level_text": "Kernel-checked theorems, unbounded in payload length, channels and stream length: the sender's output equals the specified packet list; round trip from any receiver state; locality; any interleaving (projection and merge forms); orphan continuation; refusal above the maximum. The model is tied to hid.rs by a differential stream (sender output and per-packet receiver answers compared byte for byte) and the executable Spec is evaluated on what the implementation itself returned.",
        "level_note": "Trusted: Lean kernel, axioms propext/Classical.choice/Quot.sound, the hand-written model of hid.rs (checked only on the explored inputs by the correspondence), the Spec, the harness. The writer is assumed to accept whole writes.",
        "rule": "send: boundary and random payload lengths 0..70000 x 9 commands; receive: single messages, exhaustive merges of 2-3 short streams, sampled merges of 2-4 channels with 1-3 messages each (optionally with a junk stream), junk-only streams.",
    },
}

# properties not (yet) claimed, with the reason shown under not_applicable in MANIFEST.json
NOT_YET = {}
