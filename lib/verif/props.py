"""Per-property configuration of the check runner."""

COMMON_TRUSTED = [
    "correspondence harness /verif/harness (differential testing of the hand-written model against the real crates; agreement is evidence on the explored inputs only)",
    "the Spec definitions in lean/PasskeyVerif/Spec (the formalisation of the property)",
    "rustc/cargo building the crates under test",
]

PROPS = {
    "C16": {
        "modules": ["PasskeyVerif.Props.C16"],
        "props_files": ["PasskeyVerif/Props/C16.lean"],
        "harness": [["gen", "C16"]],
        "trusted": COMMON_TRUSTED + [
            "modelled by hand: passkey-transports/src/hid.rs (Command, headers, Message::{new,send,to_packets,init,extend}, ChannelHandler::handle_packet); HashMap modelled as a function Chan -> Option Msg",
            "writer assumed to accept whole 64-byte writes (send uses write, not write_all)",
        ],
        "assumptions": ["std::io::Write accepts each 64-byte write whole", "u32 channel ids compared as their native-endian wire bytes"],
        "level_text": "Kernel-checked theorems, unbounded in payload length, channels and stream length: the sender's output equals the specified packet list; round trip from any receiver state; locality; any interleaving (projection and merge forms); orphan continuation; refusal above the maximum. The model is tied to hid.rs by a differential stream (sender output and per-packet receiver answers compared byte for byte) and the executable Spec is evaluated on what the implementation itself returned.",
        "level_note": "Trusted: Lean kernel, axioms propext/Classical.choice/Quot.sound, the hand-written model of hid.rs (checked only on the explored inputs by the correspondence), the Spec, the harness. The writer is assumed to accept whole writes.",
        "rule": "send: boundary and random payload lengths 0..70000 x 9 commands; receive: single messages, exhaustive merges of 2-3 short streams, sampled merges of 2-4 channels with 1-3 messages each (optionally with a junk stream), junk-only streams.",
    },
}

# properties not (yet) claimed, with the reason shown under not_applicable in MANIFEST.json
NOT_YET = {}
