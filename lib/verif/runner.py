"""Generic check runner (see bin/check)."""
import fcntl, hashlib, json, os, re, subprocess, sys, time
from . import props as P

VERIF = os.path.abspath(os.path.join(os.path.dirname(__file__), "..", ".."))
LEAN = os.path.join(VERIF, "lean")
HARNESS = os.path.join(VERIF, "harness")
REPO = "/repo"
ALLOWED_AXIOMS = {"propext", "Classical.choice", "Quot.sound"}
FORBIDDEN = re.compile(r"\bsorry\b|\badmit\b|^\s*axiom\s|\bnative_decide\b|\bbv_decide\b|implemented_by|\bunsafe\s|maxHeartbeats\s+0\b", re.M)

ENV = dict(os.environ, CARGO_NET_OFFLINE="true")


class Lock:
    def __init__(self, name):
        self.path = os.path.join(VERIF, "work", name + ".lock")
    def __enter__(self):
        os.makedirs(os.path.dirname(self.path), exist_ok=True)
        self.f = open(self.path, "w")
        fcntl.flock(self.f, fcntl.LOCK_EX)
    def __exit__(self, *a):
        fcntl.flock(self.f, fcntl.LOCK_UN)
        self.f.close()


NONTERMINATION_IS_A_VIOLATION = {"C15", "C18", "C19"}

def sh(cmd, cwd=None, timeout=None, stdin=None, stdout=subprocess.PIPE):
    return subprocess.run(cmd, cwd=cwd, env=ENV, stdin=stdin, stdout=stdout, stderr=subprocess.STDOUT,
                          text=True, timeout=timeout)


def strip_comments(src):
    src = re.sub(r"/-.*?-/", "", src, flags=re.S)
    return re.sub(r"--.*", "", src)


def lean_sources():
    out = [os.path.join(LEAN, "Main.lean"), os.path.join(LEAN, "PasskeyVerif.lean")]
    for d, _, fs in os.walk(os.path.join(LEAN, "PasskeyVerif")):
        out += [os.path.join(d, f) for f in fs if f.endswith(".lean")]
    return [f for f in out if os.path.exists(f)]


def theorems_of(props_file):
    src = strip_comments(open(props_file).read())
    ns = []
    names = []
    for line in src.splitlines():
        m = re.match(r"\s*namespace\s+(\S+)", line)
        if m: ns.append(m.group(1)); continue
        m = re.match(r"\s*end\s+(\S+)", line)
        if m and ns and ns[-1].split(".")[-1] == m.group(1).split(".")[-1]: ns.pop(); continue
        m = re.match(r"\s*(?:private\s+|protected\s+)?theorem\s+([^\s:({\[]+)", line)
        if m: names.append(".".join(ns + [m.group(1)]))
    return names


def build_lean(cfg, log, tier="quick"):
    """returns (ok, problems[list of str], obligations[list of theorem names], axioms{name: [..]})"""
    problems = []
    with Lock("lake"):
        targets = list(cfg["modules"]) + ["driver"]
        r = sh(["lake", "build"] + targets, cwd=LEAN, timeout=3600)
        log.write(r.stdout)
        if r.returncode != 0:
            errs = [l for l in r.stdout.splitlines() if l.startswith("error:")]
            bad_mods = re.findall(r"^- (\S+)", r.stdout, re.M)
            problems.append("lake build failed: modules %s: %s" % (bad_mods, " | ".join(errs[:4])))
            return False, problems, [], {}
        # forbidden tokens anywhere in the project
        for f in lean_sources():
            m = FORBIDDEN.search(strip_comments(open(f).read()))
            if m:
                problems.append("forbidden token %r in %s" % (m.group(0).strip(), os.path.relpath(f, LEAN)))
        # axiom audit of every theorem of the property file(s)
        names = []
        for pf in cfg["props_files"]:
            names += theorems_of(os.path.join(LEAN, pf))
        if not names:
            problems.append("no theorems found in %s" % cfg["props_files"])
        adir = os.path.join(VERIF, "work", "audit")
        os.makedirs(adir, exist_ok=True)
        afile = os.path.join(adir, "Audit_%s.lean" % cfg["id"])
        with open(afile, "w") as f:
            for m in cfg["modules"]:
                f.write("import %s\n" % m)
            for n in names:
                f.write("#print axioms %s\n" % n)
        r = sh(["lake", "env", "lean", afile], cwd=LEAN, timeout=1800)
        log.write(r.stdout)
        # thorough tier: the compiled theorem modules are re-checked by the toolchain's independent checker
        if tier == "thorough":
            rc = sh(["lake", "env", "leanchecker"] + list(cfg["modules"]), cwd=LEAN, timeout=3600)
            log.write("leanchecker rc=%d\n%s" % (rc.returncode, rc.stdout[-2000:]))
            if rc.returncode != 0:
                problems.append("leanchecker rejected %s: %s" % (cfg["modules"], rc.stdout[-300:].replace("\n", " | ")))
    axioms = {}
    out = re.sub(r"\s+", " ", r.stdout)
    for n in names:
        m = re.search(r"'%s' depends on axioms: \[([^\]]*)\]" % re.escape(n), out)
        if m:
            axioms[n] = [a.strip() for a in m.group(1).split(",") if a.strip()]
        elif re.search(r"'%s' does not depend on any axioms" % re.escape(n), out):
            axioms[n] = []
        else:
            problems.append("axiom audit: no report for %s" % n)
            continue
        extra = set(axioms[n]) - ALLOWED_AXIOMS
        if extra:
            problems.append("axiom audit: %s depends on %s" % (n, sorted(extra)))
    if r.returncode != 0:
        problems.append("axiom audit file failed to elaborate: " + " | ".join([l for l in r.stdout.splitlines() if "error" in l][:3]))
    return not problems, problems, names, axioms


def build_harness(log, profile=None):
    with Lock("cargo"):
        r = sh(["cargo", "build", "--offline"] + (["--profile", profile] if profile else ["--release"]), cwd=HARNESS, timeout=3600)
        log.write(r.stdout)
        if r.returncode != 0:
            errs = [l for l in r.stdout.splitlines() if l.startswith("error")]
            return False, "cargo build of the harness against /repo failed: " + " | ".join(errs[:4])
    return True, ""


def load_known():
    p = os.path.join(VERIF, "known_findings.json")
    if not os.path.exists(p):
        return []
    return json.load(open(p)).get("findings", [])


def match_known(known, pid, clause, text):
    for k in known:
        if k.get("property") != pid or k.get("status") != "open":
            continue
        if k.get("clause") and k["clause"] != clause:
            continue
        if k.get("op_regex") and not re.search(k["op_regex"], text):
            continue
        return k
    return None


def repo_digest():
    r = sh(["git", "-C", REPO, "rev-parse", "HEAD"])
    d = sh(["git", "-C", REPO, "diff", "HEAD", "--stat"])
    return {"head": r.stdout.strip(), "dirty": bool(d.stdout.strip())}


def main(argv):
    if not argv:
        print(__doc__); return 2
    pid = argv[0]
    tier = os.environ.get("VERIF_TIER", "quick")
    if "--tier" in argv:
        tier = argv[argv.index("--tier") + 1]
    try:
        seed = int(os.environ.get("VERIF_SEED", "1"))
    except ValueError:
        seed = 1
    if pid not in P.PROPS:
        print("unknown property", pid); return 2
    cfg = P.PROPS[pid]
    cfg["id"] = pid
    t0 = time.time()
    work = os.path.join(VERIF, "work", pid)
    os.makedirs(work, exist_ok=True)
    os.makedirs(os.path.join(VERIF, "evidence"), exist_ok=True)
    os.makedirs(os.path.join(VERIF, "replays"), exist_ok=True)
    log = open(os.path.join(work, "log.txt"), "w")
    known = load_known()

    broken = []         # proof / translator / correspondence obligations that no longer check
    spec_fail = []      # implementation observations that violate Spec: (clause, op, case_lines)
    disagree = []       # model vs implementation
    translator_info = {}

    # 1. translators
    for tr in cfg.get("translators", []):
        try:
            with Lock("lake"):
                translator_info[tr.__name__] = tr(log)
        except Exception as e:  # a translator that cannot read its source is a broken obligation
            broken.append({"kind": "translator-broken", "what": "%s: %s" % (tr.__name__, e)})

    # 2+3. lean build and audit
    lean_ok, problems, theorems, axioms = build_lean(cfg, log, tier)
    for p in problems:
        broken.append({"kind": "proof-broken", "what": p})

    # 4. harness
    h_ok, h_msg = build_harness(log, cfg.get("cargo_profile"))
    if not h_ok:
        broken.append({"kind": "harness-broken", "what": h_msg})
    # a generator marked "@<profile>" runs as that build of the harness and the library (e.g. the unoptimised one with
    # overflow checks and debug assertions)
    for prof in sorted({g[0][1:] for g in cfg["harness"] if g and g[0].startswith("@")} - {cfg.get("cargo_profile")}):
        ok2, msg2 = build_harness(log, prof)
        if not ok2:
            h_ok = False
            broken.append({"kind": "harness-broken", "what": msg2})

    # 5. correspondence
    stats = {}
    n_lines = 0
    n_spec_eval = 0
    nontrivial = set()
    checked_extra = 0
    samples = []
    driver = os.path.join(LEAN, ".lake", "build", "bin", "driver")
    if h_ok and os.path.exists(driver):
        # thorough tier: the stream is generated three times, from the seed and two derived seeds
        runs = [(g, sd) for g in cfg["harness"] for sd in ([seed, seed + 1000003, seed + 2000003] if tier == "thorough" else [seed])]
        for gi, (gen, run_seed) in enumerate(runs):
            ops_path = os.path.join(work, "ops_%d.txt" % gi)
            stats_path = os.path.join(work, "stats_%d.json" % gi)
            model_path = os.path.join(work, "model_%d.txt" % gi)
            prof = cfg.get("cargo_profile") or "release"
            if gen and gen[0].startswith("@"):
                prof, gen = gen[0][1:], gen[1:]
            # a stream that does not end is a finding, not a reason to wait: the quick streams take seconds, the thorough ones minutes
            h_timeout = int(os.environ.get("VERIF_HARNESS_TIMEOUT") or cfg.get("timeout", 600 if tier == "quick" else 7200))
            try:
                with open(ops_path, "w") as f:
                    r = subprocess.run([os.path.join(HARNESS, "target", prof, "verif-harness")] + gen +
                                       ["--tier", tier, "--seed", str(run_seed), "--stats", stats_path],
                                       stdout=f, stderr=subprocess.PIPE, text=True, env=ENV,
                                       timeout=h_timeout)
            except subprocess.TimeoutExpired:
                tail = [l.rstrip("\n")[:600] for l in open(ops_path, errors="replace").readlines()[-40:]]
                what = "harness %s (seed %d) did not finish within %d s: the implementation does not return from the operation that follows the last lines of the stream" % (gen, run_seed, h_timeout)
                if pid in NONTERMINATION_IS_A_VIOLATION:
                    # the statement itself says the call returns (C15: time in proportion to the input; C18: terminates; C19: no ceremony deadlocks)
                    spec_fail.append({"clause": "fail:implementation-did-not-return", "op": "the operation after the last line below", "impl": "no answer within %d s" % h_timeout, "case": tail})
                    n_spec_eval += 1
                else:
                    broken.append({"kind": "harness-timeout", "what": what + "; last lines: " + " | ".join(tail[-3:])})
                continue
            if r.returncode != 0:
                broken.append({"kind": "harness-broken", "what": "harness %s exited %d: %s" % (gen, r.returncode, r.stderr[-400:])})
                continue
            with open(ops_path) as fi, open(model_path, "w") as fo:
                r = subprocess.run([driver], stdin=fi, stdout=fo, stderr=subprocess.PIPE, text=True,
                                   timeout=cfg.get("timeout", 7200))
            if r.returncode != 0:
                broken.append({"kind": "proof-broken", "what": "driver exited %d: %s" % (r.returncode, r.stderr[-400:])})
                continue
            if os.path.exists(stats_path):
                st = json.load(open(stats_path))
                for k, v in st.get("distribution", {}).items():
                    stats[k] = stats.get(k, 0) + v
                samples += st.get("samples", [])
            case = []
            in_case = False
            with open(ops_path) as fa, open(model_path) as fb:
                for la, lb in zip(fa, fb):
                    la = la.rstrip("\n"); lb = lb.rstrip("\n")
                    n_lines += 1
                    op, _, impl = la.partition("\t")
                    parts = lb.split("\t")
                    model = parts[0]
                    verdict = parts[1] if len(parts) > 1 else "na"
                    extra = parts[2] if len(parts) > 2 else ""
                    tok = op.split(" ", 1)[0]
                    if tok.endswith(".reset"):
                        case = []; in_case = True
                    if in_case:
                        # the context kept for a replay is the tail of the case (long cases are not copied per line)
                        case.append(la if len(la) <= 4000 else la[:4000] + "...")
                        if len(case) > 92:
                            del case[12:len(case) - 80]      # keep the head of the case (reset / preload lines) and its tail
                    if model != impl:
                        ctx_lines = list(case) if in_case else [la]
                        if len(disagree) < 50:
                            disagree.append({"op": op[:2000], "impl": impl[:2000], "model": model[:2000], "case": [c[:600] for c in ctx_lines[-40:]]})
                        else:
                            disagree.append(None)
                    if verdict != "na":
                        n_spec_eval += 1
                        m = re.match(r"checked=(\d+)", extra)
                        if verdict.startswith("ok") and (not m or int(m.group(1)) > 0):
                            nontrivial.add(hashlib.sha1((str(n_lines) + "\n" + la[:4000]).encode()).hexdigest())
                        if m:
                            checked_extra += int(m.group(1))
                        if verdict.startswith("fail"):
                            ctx_lines = list(case) if in_case else [la]
                            spec_fail.append({"clause": verdict, "op": op[:2000], "impl": impl[:2000], "case": [c[:600] for c in ctx_lines[-60:]]})
                    if tok.endswith(".end"):
                        in_case = False; case = []
            if sum(1 for _ in open(ops_path)) != sum(1 for _ in open(model_path)):
                broken.append({"kind": "proof-broken", "what": "driver produced a different number of lines than the harness"})
    elif h_ok:
        broken.append({"kind": "proof-broken", "what": "driver executable missing (lean build failed)"})

    # 6. classify
    out_lines = []
    known_hit = {}
    new_fail = []
    for sf in spec_fail:
        k = match_known(known, pid, sf["clause"], "\n".join(sf["case"]))
        if k:
            known_hit.setdefault(k["id"], (k, sf))
        else:
            new_fail.append(sf)
    real_disagree = [d for d in disagree if d]
    violation = False
    replay_path = None
    if new_fail:
        violation = True
        replay_path = os.path.join(VERIF, "replays", "%s_%s_seed%d.json" % (pid, tier, seed))
        json.dump({"property": pid, "kind": "impl-violates-spec", "tier": tier, "seed": seed,
                   "reproduce": "VERIF_SEED=%d bin/check %s --tier %s" % (seed, pid, tier),
                   "failing": new_fail[:10], "total_failing": len(new_fail),
                   "also_broken": broken, "also_disagree": real_disagree[:5]}, open(replay_path, "w"), indent=1)
        out_lines.append("VIOLATION property=%s replay=%s" % (pid, replay_path))
    elif broken or disagree:
        violation = True
        replay_path = os.path.join(VERIF, "replays", "%s_%s_seed%d.json" % (pid, tier, seed))
        kind = broken[0]["kind"] if broken else "model-impl-disagree"
        json.dump({"property": pid, "kind": kind, "tier": tier, "seed": seed,
                   "reproduce": "VERIF_SEED=%d bin/check %s --tier %s" % (seed, pid, tier),
                   "no_longer_checks": [b["what"] for b in broken] or ["correspondence stream %s: model and implementation disagree on %d line(s)" % (cfg["harness"], len(disagree))],
                   "disagreements": real_disagree[:10],
                   "searched": {"ops": n_lines, "spec_evaluations": n_spec_eval, "spec_failures": 0}},
                  open(replay_path, "w"), indent=1)
        out_lines.append("VIOLATION property=%s replay=%s no-failing-input-found" % (pid, replay_path))
    for kid, (k, sf) in known_hit.items():
        out_lines.append("KNOWN-FINDING: property=%s %s" % (pid, k["what"]))

    wall = time.time() - t0
    ev = {
        "property_id": pid, "tier": tier, "seed": seed, "level": "proof",
        "coverage": {
            "obligations": len(theorems) + (1 if cfg["harness"] else 0),
            "discharged": (len(theorems) if lean_ok else 0) + (1 if (cfg["harness"] and not disagree and h_ok) else 0),
            "checker_cmd": "cd /verif/lean && lake build %s && lake env lean ../work/audit/Audit_%s.lean  (kernel check + #print axioms)%s" % (" ".join(cfg["modules"]), pid, ("; lake env leanchecker %s (independent re-check of the compiled modules)" % " ".join(cfg["modules"])) if tier == "thorough" else ""),
            "trusted_base": ["Lean 4.33 kernel", "axioms: " + ", ".join(sorted({a for v in axioms.values() for a in v}) or ["none"])] + cfg.get("trusted", []),
            "theorems": theorems,
            "axioms_per_theorem": axioms,
            "correspondence": {"streams": [" ".join(g) for g in cfg["harness"]], "ops": n_lines,
                               "disagreements": len(disagree), "spec_evaluations_on_impl": n_spec_eval,
                               "spec_failures": len(spec_fail), "known_findings_hit": sorted(known_hit),
                               "spec_checked_units": checked_extra},
            "input_distribution": stats,
            "translators": translator_info,
            "evaluations": max(n_lines, 1),
            "distinct_nontrivial": len(nontrivial),
            "rule": cfg.get("rule", "") + " Counted as non-trivial: distinct cases (by text of the case's operations) on which the executable Spec was evaluated on the implementation's observation with its hypotheses met.",
            "samples": samples[:8] or ["(no correspondence stream)"],
            "exhaustive": bool(cfg.get("exhaustive", False)),
            "broken_obligations": broken,
        },
        "assumptions": cfg.get("assumptions", []),
        "wall_s": round(wall, 2),
        "violations": (len(new_fail) if new_fail else (1 if violation else 0)),
        "repo": repo_digest(),
    }
    json.dump(ev, open(os.path.join(VERIF, "evidence", pid + ".json"), "w"), indent=1)
    for l in out_lines:
        print(l)
    print("%s %s tier=%s seed=%d theorems=%d ops=%d spec_evals=%d disagreements=%d wall=%.1fs" % (
        pid, "VIOLATED" if violation else "ok", tier, seed, len(theorems), n_lines, n_spec_eval, len(disagree), wall))
    log.close()
    return 1 if violation else 0
